Just text

## Scenario: s
- Given x
