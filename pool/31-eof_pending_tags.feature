Feature: Q
  Scenario: s
    Given x
  @pending
  # comment

  @more
