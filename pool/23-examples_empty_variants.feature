Feature: E
  Scenario Outline: o
    Given <a>
    Examples: none
    Examples: header only
      | a |
    Examples: two
      | a |
      | 1 |
      | 2 |
