Feature: Conj
  Scenario: s
    And first
    But second
    * third
    Given fourth
    And fifth
