Feature: Descriptions
      deeply indented description line
        even deeper
    back

  Scenario: s
          ten blanks of description
      six
    Given x
