# language: fr
Fonctionnalité: Français
  Contexte:
    Soit b
  Scénario: s
    Quand x
    Alors y
    Et z
