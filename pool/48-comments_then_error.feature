# c1
# c2
Feature: X
  # c3
  Scenario: s
    Given x
    # c4
    oops
    # c5
