Feature: T
  Scenario: s
    Given t
      | a | b |
      | 1 | 2 |