# language: ja
機能: x
  シナリオ: s
    前提a
    Given b
