Feature: Doc
  Scenario: s
    Given x
    ```
    """
    not closed by quotes
    \`\`\`
    ```
