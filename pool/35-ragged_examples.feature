Feature: Ragged
  Scenario Outline: s
    Given <a>
    Examples:
      | a | b |
      | 1 |
      | 2 | 3 | 4 |
