# just a comment
# another
