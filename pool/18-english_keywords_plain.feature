Feature: en only
  Scenario: s
    Given Soit is not a keyword here
    Soit this is an error in en but we are in a step arg? no
