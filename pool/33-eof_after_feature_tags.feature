@only @tags
