Feature: L
  Scenario: s
    Given x
  @good
  # c
  @not ok
  Scenario: t
    Given y
