Feature: T
  Scenario: s
    Given t
      | a\|b | c\\d | e\nf |  |
      | 1 | 2 | 3 | 4 |
