Feature: en
  Soit x
  Quand y
  Scenario: s
    Given z
