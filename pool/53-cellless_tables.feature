@f
Feature: C
  Background:
    Given b
      |
  @o
  Scenario Outline: o
    Given <a> step
      |
      |
    When w
    @e
    Examples:
      |
      |
      |
    Examples: second
      | a |
      | 1 |
