# language: em
📚: emoji
  📕: s
    😐x
    🎬y
    🙏z
