# Feature: M
## Scenario: s
* Given x
````
four ticks open
