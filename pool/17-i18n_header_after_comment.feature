# first a comment
#language:no
Egenskap: norsk
  Scenario: s
    Gitt x
