Feature: E
  Scenario: s
    Given x
    same junk
    same junk
    same junk
    same junk
    same junk
