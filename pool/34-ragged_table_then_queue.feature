Feature: Ragged
  Scenario: s
    Given t
      | a | b |
      | 1 |
  @t
  # c
  Scenario: next
    Given y
