# language: zz-unknown
Feature: X
  Scenario: s
    Given x
