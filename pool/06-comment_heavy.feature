# c1
Feature: Comments
  # c2
  Background:
    # c3
    Given b
  # c4
  Scenario: s
    # c5
    Given x
      # c6
      | a |
      # c7
      | b |
# c8
