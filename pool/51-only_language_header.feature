# language: fr
