Feature: X
  Scenario: s
    Given x
  Background:
    Given late
