Feature: U
  @t
