Feature: Minimal

  Scenario: minimalistic
    Given the minimalism
