# language: fr
Fonctionnalité: X
  Scénario: s
    Soit x
    Given not french
    Alors y
