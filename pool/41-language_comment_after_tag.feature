#language:fr

@t
# language: en
Fonctionnalité: X
  Scénario: s
    Soit x
