Feature: CRLF
  Scenario: s
    Given x
      """
      line
      """
      
