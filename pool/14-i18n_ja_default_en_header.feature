# language: ja
機能: 日本語
  シナリオ: s
    前提x
    もしy
    ならばz
