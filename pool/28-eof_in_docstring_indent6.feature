Feature: D
  Scenario: s
    Given x
      """xml
      open at indent 6
