Feature: Many
  Scenario: s0
    Given g0
    When w0
    Then t0

  Scenario: s1
    Given g1
    When w1
    Then t1

  Scenario: s2
    Given g2
    When w2
    Then t2

  Scenario: s3
    Given g3
    When w3
    Then t3

  Scenario: s4
    Given g4
    When w4
    Then t4

  Scenario: s5
    Given g5
    When w5
    Then t5

  Scenario: s6
    Given g6
    When w6
    Then t6

  Scenario: s7
    Given g7
    When w7
    Then t7

