Feature: one
  Scenario: s
    Given x
Feature: two
