Feature: L
  Scenario: s
    Given x
    junk 0
    junk 1
    junk 2
    junk 3
    junk 4
    junk 5
    junk 6
    junk 7
    junk 8
    junk 9
  @good
  @bad tag
  Scenario: t
