@f1 @f2
Feature: Outline
  @s1
  Scenario Outline: eat <what>
    Given <n> <what>
      | k | <what> |
    When eaten
      """<n>
      body <what>
      """
    But not <missing>

    @e1
    Examples: first
      | n | what |
      | 1 | apples |
      | 2 | pears |

    @e2 @e3
    Examples: second
      | n | what |
      | 3 | plums |
