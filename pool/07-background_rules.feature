@f
Feature: Rules
  Background:
    Given fb

  Scenario: before rule
    When x

  @r1
  Rule: first
    Background:
      Given rb1
    @s1
    Example: in rule
      Then y

  Rule: second
    Example: other
      And z
