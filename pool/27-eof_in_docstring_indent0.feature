Feature: D
  Scenario: s
    Given x
"""
open at indent 0
  Scenario: not a scenario
