# Feature: Markdown
Some prose.

## Background:
* Given b

`@t1` `@t2`
## Scenario: s
* When x
  | a | b |
  |---|---|
  | 1 | 2 |
+ Then y
```json
{}
```
