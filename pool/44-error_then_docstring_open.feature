Feature: X
  junk before
  Scenario: s
  Scenario: t
    Given x
    nonsense
      """
      still open
