Feature: D
  Scenario: s
    Given x
          ```
          open at indent 10
  @tag
