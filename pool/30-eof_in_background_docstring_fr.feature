# language: fr
Fonctionnalité: D
  Contexte:
    Soit x
        """
        ouvert
