Feature: R
  Scenario: s
    Given x
  @r
  # c

  @r2
  Rule: r
    @x
    Scenario: t
      Given y
