Feature: Doc
  Scenario: s
    Given x
      """json
      {"a": 1}
        nested
    dedented
      """
    Then y
