Feature: Q
  Scenario Outline: s
    Given <x>
    @pending

    # c
