Feature: LA
  Scenario: one
    Given x

  @a
  # comment in tags

  @b @c
  Scenario: two
    Given y

  @d

  # c
  Scenario Outline: three
    Given <z>
    @e
    # c

    @f
    Examples:
      | z |
      | 1 |
