Feature: W
  @a b
  Scenario: s
    Given x
  @ok
  Scenario: t
    Given y
