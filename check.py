#!/usr/bin/env python3
"""Entry point (imports the package once; never run as `python -m`)."""
import os
import sys

HERE = os.path.dirname(os.path.abspath(__file__))
if HERE not in sys.path:
    sys.path.insert(0, HERE)

if __name__ == "__main__":
    from sim import runner
    sys.exit(runner.main(sys.argv[1:]))
