"""Seams: the places where the code under test meets scheduling, ids and the file system.

Nothing in /repo is changed.  `install()` patches, from outside and once per process:

* `Parser.read_token`            -> yield point (gate) + token counter
* `TokenScanner.read`            -> read counter + fallback yield point when `read_token` was not used
* `Parser.match_token`           -> observation only (automaton state, matcher flags)
* `IdGenerator.__init__/get_next_id` -> recorder (+ optional opaque id flavour)
* `gherkin.token_scanner.os/open`, `gherkin.stream.source_events.open` -> simulated file system

Everything consults the module global `ENV` (the environment of the run in progress).  With
`ENV is None` the gates and recorder are transparent and the file system is an empty SimFS.
"""
from __future__ import annotations

import errno
import io
import os as _real_os
import random
import threading
from collections import Counter

ENV = None
SIM_ROOT = "/simfs/"
INSTALLED = {}
GATE = "none"


class Ctx:
    """Per-thread-of-control observation record (one per task, one for the main thread)."""

    __slots__ = ("reads", "toks", "gates", "gated", "obs", "draws", "states", "watch")

    def __init__(self):
        self.reads = 0
        self.toks = 0
        self.gates = 0  # places where a context switch could happen (read_token, or a scanner read not preceded by one)
        self.gated = False
        self.obs = None
        self.draws = []
        self.states = None
        self.watch = None  # [live object, snapshot, first difference seen] while a compile is in progress


class IdRecorder:
    def __init__(self, flavour="inc", salt=0):
        self.flavour = flavour
        self.salt = salt & 0xFFFFFFFF
        self.serials = 0
        self.by_obj = {}
        self.log = []  # (generator serial, id handed out)

    def register(self, gen):
        self.by_obj[id(gen)] = (self.serials, gen)  # strong reference: id() stays unique for the run
        self.serials += 1

    def serial_of(self, gen):
        e = self.by_obj.get(id(gen))
        return e[0] if e is not None and e[1] is gen else None

    def draw(self, gen, value, ctx):
        serial = self.serial_of(gen)
        if serial is None:
            self.register(gen)
            serial = self.serial_of(gen)
        out = value
        if self.flavour == "opaque" and isinstance(value, str):
            try:
                n = int(value)
                out = "g%dx%08x" % (serial, (((n + 1) * 2654435761) ^ self.salt) & 0xFFFFFFFF)
            except ValueError:
                out = "g%dx%s" % (serial, value)
        if self.flavour == "weird" and isinstance(value, str):
            out = weird_id(serial, value)
        self.log.append((serial, out))
        if ctx is not None:
            ctx.draws.append(out)
            w = ctx.watch
            if w is not None and w[2] is None and w[0] != w[1]:
                w[2] = len(ctx.draws)  # the compile argument differs from its snapshot at this draw
        return out


def weird_id(serial, value):
    """Legal but unusual ids (the interface is get_next_id() -> str): leading zeros, blanks, a decimal point, hex,
    an invisible character, a very long id and one EMPTY id - pairwise distinct per generator, so code that treats
    ids as opaque strings is unaffected."""
    try:
        n = int(value)
    except ValueError:
        return "w%d:%s" % (serial, value)
    if n == 1:
        return "" if serial == 0 else "g%d-" % serial
    k = n % 6
    body = ("%05d" % n, " %d" % n, "%d.0" % n, "0x%x" % n, "%d\u200b" % n, ("ID%d" % n) * 8)[k]
    return body if serial == 0 else "g%d/%s" % (serial, body)


class SimRaw(io.RawIOBase):
    def __init__(self, fs, path, data, rng, chunk_max, eio_after):
        super().__init__()
        self.fs, self.path, self.data, self.rng = fs, path, data, rng
        self.chunk_max, self.eio_after = chunk_max, eio_after
        self.pos = 0

    def readable(self):
        return True

    def readinto(self, b):
        if self.eio_after is not None and self.pos >= self.eio_after:
            self.fs.stats["read_error"] += 1
            raise OSError(errno.EIO, "Input/output error (simulated)", self.path)
        want = min(len(b), len(self.data) - self.pos)
        if self.eio_after is not None:
            want = min(want, self.eio_after - self.pos) or want
        n = want
        if want > 1 and self.chunk_max:
            n = min(want, self.rng.randint(1, self.chunk_max))
            if n < want:
                self.fs.stats["short_read"] += 1
        b[:n] = self.data[self.pos:self.pos + n]
        self.pos += n
        return n


class SimFS:
    """path -> bytes, three directories that always exist, per-path faults, seeded short reads."""

    def __init__(self, seed=0, chunk_max=0, locale="utf-8"):
        self.seed = seed
        self.chunk_max = chunk_max
        self.locale = locale
        self.files = {}
        self.dirs = {".", "..", "/"}
        self.faults = {}  # path -> "ENOENT" | "EACCES" | "EISDIR" | ("EIO", after_n_bytes)
        self.opens = 0
        self.stats = Counter()
        self.exists_true = []  # arguments for which exists() answered True (path-collision evidence)
        self.no_collision = False  # fault removed: the path-or-string test never finds a source text on disk

    def canon(self, p):
        """Alternative spellings of a simulated path (doubled slash, /./ segment) name the same file."""
        if isinstance(p, str) and p.startswith(SIM_ROOT) and ("//" in p or "/./" in p):
            import posixpath
            return posixpath.normpath(p)
        return p

    def owns(self, p):
        """Is this path part of the simulated world (else the real file system answers)?"""
        return isinstance(p, str) and (p.startswith(SIM_ROOT) or p in self.files or p in self.dirs or p in self.faults)

    def children(self, d):
        """Names directly under the simulated directory d (files and sub-directories)."""
        d = self.canon(d).rstrip("/") + "/"
        out = {}
        for f in self.files:
            if isinstance(f, str) and f.startswith(d):
                rest = f[len(d):]
                if rest:
                    name, sep, _ = rest.partition("/")
                    out[name] = bool(sep) or out.get(name, False)
        return out  # name -> is_dir

    def is_sim_dir(self, p):
        p = self.canon(p).rstrip("/")
        return p + "/" == SIM_ROOT or bool(p.startswith(SIM_ROOT) and self.children(p))

    def stat(self, p):
        import stat as _stat
        if isinstance(p, str) and "\x00" in p:
            raise ValueError("embedded null byte")
        p = self.canon(p)
        if p not in self.files and p not in self.dirs and isinstance(p, str) and p.startswith(SIM_ROOT[:-1]) and self.is_sim_dir(p):
            return _real_os.stat_result((_stat.S_IFDIR | 0o755, 1, 1, 1, 0, 0, 4096, 0, 0, 0))
        if p in self.dirs:
            return _real_os.stat_result((_stat.S_IFDIR | 0o755, 1, 1, 1, 0, 0, 4096, 0, 0, 0))
        if p in self.files and self.faults.get(p) != "ENOENT":
            return _real_os.stat_result((_stat.S_IFREG | 0o644, 1, 1, 1, 0, 0, len(self.files[p]), 0, 0, 0))
        raise FileNotFoundError(errno.ENOENT, "No such file or directory", p)

    def exists(self, p):
        if not isinstance(p, (str, bytes)) or (isinstance(p, str) and "\x00" in p):
            return False  # os.path.exists swallows the ValueError
        p = self.canon(p)
        hit = p in self.files or p in self.dirs
        if hit and self.no_collision:
            return False
        if hit:
            self.exists_true.append(p)
        return hit

    def open(self, p, mode="r", buffering=-1, encoding=None, errors=None, newline=None, **_kw):
        if isinstance(p, str):
            if "\x00" in p:
                raise ValueError("embedded null byte")  # what the real open() does
            if len(p) > 4096 or any(len(c.encode("utf-8", "surrogatepass")) > 255 for c in p.split("/")):
                self.stats["open_error"] += 1
                raise OSError(errno.ENAMETOOLONG, "File name too long", p[:64] + "...")
        p = self.canon(p)
        self.opens += 1
        self.stats["open"] += 1
        fault = self.faults.get(p)
        if p in self.dirs or fault == "EISDIR":
            self.stats["open_error"] += 1
            raise IsADirectoryError(errno.EISDIR, "Is a directory", p)
        if p not in self.files or fault == "ENOENT":
            self.stats["open_error"] += 1
            raise FileNotFoundError(errno.ENOENT, "No such file or directory", p)
        if fault == "EACCES":
            self.stats["open_error"] += 1
            raise PermissionError(errno.EACCES, "Permission denied", p)
        if any(c in mode for c in "wax+"):
            raise PermissionError(errno.EROFS, "Read-only file system (simulated)", p)
        eio = fault[1] if isinstance(fault, tuple) and fault[0] == "EIO" else None
        rng = random.Random(self.seed * 1000003 + self.opens)
        raw = SimRaw(self, p, self.files[p], rng, self.chunk_max, eio)
        buf = io.BufferedReader(raw)
        if "b" in mode:
            return buf
        return io.TextIOWrapper(buf, encoding=encoding or self.locale, errors=errors, newline=newline)


EMPTY_FS = SimFS()


class RunEnv:
    def __init__(self, kernel=None, fs=None, flavour="inc", salt=0):
        self.kernel = kernel
        self.fs = fs if fs is not None else SimFS()
        self.rec = IdRecorder(flavour, salt)
        self.main_ctx = Ctx()
        self.stats = Counter()


def cur_ctx():
    env = ENV
    if env is None:
        return None
    k = env.kernel
    if k is not None:
        t = k.current
        if t is not None and threading.current_thread() is t.thread:
            return t.ctx
    return env.main_ctx


def cur_fs():
    env = ENV
    return env.fs if env is not None else EMPTY_FS


class swap_env:
    """with swap_env(env): ... -- nestable; used for reference ("alone") computations."""

    def __init__(self, env):
        self.env = env

    def __enter__(self):
        global ENV
        self.prev = ENV
        ENV = self.env
        return self.env

    def __exit__(self, *a):
        global ENV
        ENV = self.prev
        return False


class _PathShim:
    def __getattr__(self, name):
        return getattr(_real_os.path, name)

    @staticmethod
    def exists(p):
        return cur_fs().exists(p)

    @staticmethod
    def isfile(p):
        fs = cur_fs()
        return p in fs.files

    @staticmethod
    def isdir(p):
        return p in cur_fs().dirs


class _OsShim:
    path = _PathShim()

    def __getattr__(self, name):
        return getattr(_real_os, name)


def _sim_open(p, *a, **k):
    return cur_fs().open(p, *a, **k)


def _matcher_flags(context):
    m = getattr(context, "token_matcher", None)
    q = getattr(context, "token_queue", None)
    return (
        getattr(m, "dialect_name", None) != getattr(m, "_default_dialect_name", None),
        bool(getattr(m, "_active_doc_string_separator", None)),
        bool(getattr(m, "_indent_to_remove", 0)),
        bool(q),
    )


def install():
    """Patch the seams (idempotent). Returns a description of what could be installed."""
    global GATE
    if INSTALLED:
        return INSTALLED
    import gherkin.parser as gp
    import gherkin.token_scanner as ts
    import gherkin.stream.id_generator as ig
    import gherkin.stream.source_events as se

    info = {"probes": []}
    for mod in ("gherkin.stream.gherkin_events", "gherkin.token_matcher_markdown", "gherkin.token_formatter_builder", "gherkin.pickles.compiler",
                "gherkin.ast_builder", "gherkin.dialect", "gherkin.errors", "scripts.generate_events"):
        try:  # everything is loaded before the first module-state fingerprint is taken
            __import__(mod)
        except Exception:  # noqa: BLE001
            info.setdefault("not_importable", []).append(mod)

    orig_read_token = gp.Parser.__dict__.get("read_token")
    if orig_read_token is not None:
        def read_token(self, context, *args, **kwargs):
            env = ENV
            if env is not None:
                ctx = cur_ctx()
                ctx.toks += 1
                ctx.gates += 1
                ctx.gated = True
                k = env.kernel
                if k is not None:
                    k.yield_point("tok")
            return orig_read_token(self, context, *args, **kwargs)

        gp.Parser.read_token = read_token
        GATE = "read_token"

    orig_read = ts.TokenScanner.__dict__.get("read")
    if orig_read is not None:
        def read(self):
            env = ENV
            if env is not None:
                ctx = cur_ctx()
                ctx.reads += 1
                if not ctx.gated:
                    ctx.gates += 1
                    k = env.kernel
                    if k is not None:
                        k.yield_point("read")
                ctx.gated = False
            return orig_read(self)

        ts.TokenScanner.read = read
        if GATE == "none":
            GATE = "scanner_read"

    orig_match = gp.Parser.__dict__.get("match_token")
    if orig_match is not None:
        def match_token(self, *a, **kw):
            env = ENV
            if env is not None:
                try:
                    ctx = cur_ctx()
                    ctx.obs = (a[0],) + _matcher_flags(a[2])
                    if ctx.states is not None:
                        ctx.states.add(ctx.obs)
                except Exception:  # noqa: BLE001 - observation must never influence a verdict
                    pass
            return orig_match(self, *a, **kw)

        gp.Parser.match_token = match_token
        info["probes"].append("match_token")

    orig_init = ig.IdGenerator.__init__
    orig_next = ig.IdGenerator.get_next_id

    def __init__(self, *a, **k):
        orig_init(self, *a, **k)
        env = ENV
        if env is not None:
            env.rec.register(self)

    def get_next_id(self):
        env = ENV
        before = len(env.rec.log) if env is not None else 0
        v = orig_next(self)
        env = ENV
        if env is None or len(env.rec.log) != before:
            return v  # no run in progress, or the draw was already recorded on an inner path (__next__ / __iter__)
        return env.rec.draw(self, v, cur_ctx())

    ig.IdGenerator.__init__ = __init__
    ig.IdGenerator.get_next_id = get_next_id

    # The Pythonic alternative draw path: if the class is (made) iterable, ids pulled through the iterator
    # are draws too - recorded once, whether or not the iterator goes through get_next_id itself.
    def _recording_iter(gen, inner):
        while True:
            env = ENV
            before = len(env.rec.log) if env is not None else 0
            try:
                v = next(inner)
            except StopIteration:
                return
            env = ENV
            if env is not None and len(env.rec.log) == before and isinstance(v, str):
                v = env.rec.draw(gen, v, cur_ctx())
            yield v

    orig_iter = ig.IdGenerator.__dict__.get("__iter__")
    orig_nxt = ig.IdGenerator.__dict__.get("__next__")
    if orig_iter is not None and orig_nxt is None:
        def __iter__(self):
            return _recording_iter(self, iter(orig_iter(self)))

        ig.IdGenerator.__iter__ = __iter__
        info["probes"].append("IdGenerator.__iter__")
    if orig_nxt is not None:
        def __next__(self):
            env = ENV
            before = len(env.rec.log) if env is not None else 0
            v = orig_nxt(self)
            env = ENV
            if env is not None and len(env.rec.log) == before and isinstance(v, str):
                v = env.rec.draw(self, v, cur_ctx())
            return v

        ig.IdGenerator.__next__ = __next__
        info["probes"].append("IdGenerator.__next__")

    ts.os = _OsShim()
    ts.open = _sim_open
    se.open = _sim_open

    # Process-wide fall-through wrappers, so that a refactoring to pathlib / io.open / os.stat still
    # meets the simulated file system: only paths the SimFS owns are intercepted, only during a run.
    import builtins
    real_open, real_stat = builtins.open, _real_os.stat

    def _fspath(f):
        if isinstance(f, int):
            return None
        try:
            p = _real_os.fspath(f)
        except TypeError:
            return None
        return p.decode("utf-8", "surrogateescape") if isinstance(p, bytes) else p

    def global_open(file, *a, **k):
        env = ENV
        if env is not None:
            p = _fspath(file)
            if p is not None and env.fs.owns(p):
                return env.fs.open(p, *a, **k)
        return real_open(file, *a, **k)

    def global_stat(path, *a, **k):
        env = ENV
        if env is not None:
            p = _fspath(path)
            if p is not None and env.fs.owns(p):
                if env.fs.no_collision and not p.startswith(SIM_ROOT):
                    raise FileNotFoundError(errno.ENOENT, "No such file or directory", p)
                return env.fs.stat(p)
        return real_stat(path, *a, **k)

    builtins.open = global_open
    io.open = global_open
    _real_os.stat = global_stat

    # directory listing of the simulated tree (glob, os.walk, pathlib.iterdir of code under test)
    real_lstat, real_listdir, real_scandir = _real_os.lstat, _real_os.listdir, _real_os.scandir

    class _SimEntry:
        def __init__(self, d, name, is_dir):
            self.name, self.path, self._d = name, d.rstrip("/") + "/" + name, is_dir

        def is_dir(self, follow_symlinks=True):
            return self._d

        def is_file(self, follow_symlinks=True):
            return not self._d

        def is_symlink(self):
            return False

        def stat(self, follow_symlinks=True):
            return global_stat(self.path)

        def __fspath__(self):
            return self.path

    class _SimScan:
        def __init__(self, entries):
            self._it = iter(entries)

        def __iter__(self):
            return self._it

        def __next__(self):
            return next(self._it)

        def __enter__(self):
            return self

        def __exit__(self, *a):
            return False

        def close(self):
            pass

    def _sim_dir(path):
        env = ENV
        if env is None:
            return None
        p = _fspath(path)
        if p is None or not p.startswith(SIM_ROOT[:-1]):
            return None
        return p

    def global_lstat(path, *a, **k):
        return global_stat(path, *a, **k) if _sim_dir(path) is not None or (ENV is not None and _fspath(path) is not None and ENV.fs.owns(_fspath(path))) else real_lstat(path, *a, **k)

    def global_listdir(path="."):
        p = _sim_dir(path)
        if p is None:
            return real_listdir(path)
        if not ENV.fs.is_sim_dir(p):
            raise FileNotFoundError(errno.ENOENT, "No such file or directory", p)
        return sorted(ENV.fs.children(p))

    def global_scandir(path="."):
        p = _sim_dir(path)
        if p is None:
            return real_scandir(path)
        if not ENV.fs.is_sim_dir(p):
            raise FileNotFoundError(errno.ENOENT, "No such file or directory", p)
        return _SimScan([_SimEntry(p, n, d) for n, d in sorted(ENV.fs.children(p).items())])

    _real_os.lstat = global_lstat
    _real_os.listdir = global_listdir
    _real_os.scandir = global_scandir

    info["gate"] = GATE
    INSTALLED.update(info)
    return INSTALLED
