"""Stream operations: SourceEvents + GherkinEvents driven by a simulated consumer, the real CLI entry
point run in-process, and the reference model of the stream layer (what gherkin_events.py and
source_events.py add on top of Parser / Compiler)."""
from __future__ import annotations

import copy
import io
import json
import sys

from . import engine
from .kernel import SimCancelled, SimKilled

MEDIA_TYPE = "text/x.cucumber.gherkin+plain"


def norm_env(ev, pos):
    """Envelope copy with every id / id reference replaced by ["D", index in the source's draw slice]."""

    def ref(v):
        return ["D", pos.get(v, "?" + v)] if isinstance(v, str) else v

    def walk(o):
        if isinstance(o, dict):
            r = {}
            for k, v in o.items():
                if k in ("id", "astNodeId"):
                    r[k] = ref(v)
                elif k == "astNodeIds" and isinstance(v, list):
                    r[k] = [ref(x) for x in v]
                else:
                    r[k] = walk(v)
            return r
        if isinstance(o, (list, tuple)):
            return [walk(x) for x in o]
        return o

    return walk(ev)


def shift(norm, tagmap):
    """Rewrite reference-model ids (["A", i] / ["P", j]) into ["D", offset + i]."""

    def walk(o):
        if isinstance(o, list) and len(o) == 2 and isinstance(o[0], str) and o[0] in tagmap and (isinstance(o[1], int) or isinstance(o[1], str)):
            return ["D", tagmap[o[0]] + o[1]] if isinstance(o[1], int) else ["D", o[1]]
        if isinstance(o, dict):
            return {k: walk(v) for k, v in o.items()}
        if isinstance(o, list):
            return [walk(x) for x in o]
        return o

    return walk(norm)


def model_source(text, uri, opts, base=0, media_type=MEDIA_TYPE, first=False):
    """(expected envelopes with ids as ["D", base + i], number of draws the source costs, accepted?)."""
    pr = engine.ALONE.parse(text, None, "ast", first, "text")
    if pr["kind"] == "doc":
        out = []
        a = len(pr["draws"])
        if opts[0]:
            out.append({"source": {"uri": uri, "data": text, "mediaType": media_type}})
        if opts[1]:
            out.append({"gherkinDocument": dict(shift(pr["norm"], {"A": base}), uri=uri)})
        ndraws = a
        if opts[2]:
            cr = engine.ALONE.compile(text, None, uri)
            if cr["kind"] == "pickles":
                for p in shift(cr["norm"], {"A": base, "P": base + a}):
                    out.append({"pickle": p})
                ndraws = a + len(cr["draws"])
            else:
                out.append({"__foreign__": cr.get("norm", ["no compile reference: the default-mode reference parse does not accept this text"])})
        return out, ndraws, True
    if pr["kind"] == "composite":
        errs = pr["norm"]
    elif pr["kind"] == "single":
        errs = [pr["norm"]]
    else:
        return [{"__foreign__": pr["norm"]}], len(pr["draws"]), False
    out = [{"parseError": {"source": {"uri": uri, "location": e[2]}, "message": e[1]}} for e in errs]
    return out, len(pr["draws"]), False


def readable(fs, path):
    """What the model says about reading `path`: (text | None, reason)."""
    path = fs.canon(path)
    if path in fs.dirs or path not in fs.files:
        return None, "missing-or-directory"
    if fs.faults.get(path):
        f = fs.faults[path]
        if not (isinstance(f, tuple) and f[0] == "EIO" and f[1] > len(fs.files[path])):
            return None, "fault"
    try:
        return fs.files[path].decode("utf-8"), "ok"
    except UnicodeDecodeError:
        return None, "bad-utf8"


def rename_first(envs):
    """Ids renamed by order of first appearance within one source's envelopes (any allocation pattern
    of the running counter is tolerated; references must still be consistent)."""
    seen = {}

    def ref(v):
        key = canon_id(v)
        if key not in seen:
            seen[key] = len(seen)
        return ["N", seen[key]]

    def walk(o):
        if isinstance(o, dict):
            r = {}
            for k, v in o.items():
                if k in ("id", "astNodeId"):
                    r[k] = ref(v)
                elif k == "astNodeIds" and isinstance(v, list):
                    r[k] = [ref(x) for x in v]
                else:
                    r[k] = walk(v)
            return r
        if isinstance(o, (list, tuple)):
            return [walk(x) for x in o]
        return o

    return walk(envs)


def canon_id(v):
    return engine.canon(v)


def enum_sources(src_obj):
    """iter(SourceEvents.enum()); an implementation that fails already when the enumeration is requested is
    presented as an iterator whose first item raises that exception and which is exhausted afterwards."""
    try:
        return iter(src_obj.enum())
    except (SimCancelled, SimKilled):
        raise
    except Exception as e:  # noqa: BLE001
        def failing(exc=e):
            raise exc
            yield  # pragma: no cover
        return failing()


def run_stream_zip(ts, op):
    """ONE GherkinEvents instance, the generators of several sources created up front and advanced in a
    seeded interleaved order (a consumer that zips / round-robins the per-source generators)."""
    from gherkin.stream.source_events import SourceEvents
    ctx, k = ts.ctx, ts.run.kernel
    ge = ts.streams[op["s"]]
    paths = list(op["paths"])
    order = list(op["consumer"].get("order") or [])
    it = enum_sources(SourceEvents(paths))
    d_op = len(ctx.draws)
    sources, gens = [], []
    for path in paths:
        s = {"path": path, "live": [], "snap": [], "status": "ok", "d0": len(ctx.draws), "data": None}
        sources.append(s)
        try:
            se = next(it)
        except StopIteration:
            s["status"] = "missing"
            gens.append(None)
            continue
        except (OSError, UnicodeError) as e:
            s["status"], s["error"] = "unreadable", [type(e).__name__, str(e)]
            gens.append(None)
            continue
        except (SimCancelled, SimKilled):
            raise
        except Exception as e:  # noqa: BLE001
            s["status"], s["error"] = "foreign-source", [type(e).__name__, str(e)]
            gens.append(None)
            continue
        try:
            s["data"] = se["source"]["data"]
        except Exception:  # noqa: BLE001
            pass
        try:
            gens.append(iter(ge.enum(se)))
        except (SimCancelled, SimKilled):
            ctx.obs = None
            raise
        except Exception as e:  # noqa: BLE001
            s["status"], s["error"] = "foreign", [type(e).__name__, str(e)]
            gens.append(None)
    live = [i for i, g in enumerate(gens) if g is not None]
    pos = 0
    while live:
        want = order[pos] if pos < len(order) else pos
        pos += 1
        i = live[want % len(live)]
        s = sources[i]
        try:
            ev = next(gens[i])
        except StopIteration:
            live.remove(i)
            continue
        except (SimCancelled, SimKilled):
            ctx.obs = None
            raise
        except Exception as e:  # noqa: BLE001
            s["status"], s["error"] = "foreign", [type(e).__name__, str(e)]
            live.remove(i)
            continue
        s["live"].append(ev)
        s["snap"].append(copy.deepcopy(ev))
        if k is not None:
            k.yield_point("env")
    ctx.obs = None
    norm = []
    for s in sources:
        s["d1"] = len(ctx.draws)
        s["norm"] = rename_first(s["snap"])
        norm.append([s["path"], s["status"], s.get("error"), s["norm"]])
    return {"op": "stream", "kind": "stream", "sources": sources, "raw": [s["live"] for s in sources], "snap": [s["snap"] for s in sources],
            "norm": norm, "draws": ctx.draws[d_op:], "reads": 0, "toks": 0, "dirty": [], "abandoned": False, "zip": True}


def run_stream(ts, op):
    from gherkin.stream.source_events import SourceEvents
    ctx, k = ts.ctx, ts.run.kernel
    ge = ts.streams[op["s"]]
    paths = list(op["paths"])
    cons = op.get("consumer") or {"k": "drain"}
    if cons.get("k") == "zip":
        return run_stream_zip(ts, op)
    drop = bool(ts.run.cfg.get("drop"))  # the consumer keeps no envelope object (only the checker's copies exist)
    budget = cons.get("n") if cons["k"] == "take" else None
    mem = op.get("events") or {}  # hand-built source events (no file involved) for some positions
    src_obj = SourceEvents([p for i, p in enumerate(paths) if str(i) not in mem])
    if op.get("reenum"):
        # the same SourceEvents object enumerated once before (a first pass that is abandoned after one event)
        try:
            next(enum_sources(src_obj), None)
        except (SimCancelled, SimKilled):
            raise
        except Exception:  # noqa: BLE001 - an unreadable first path: the abandoned pass just ends there
            pass
    it = enum_sources(src_obj)
    d_op = len(ctx.draws)
    sources, taken, stop = [], 0, False
    for pi, path in enumerate(paths):
        s = {"path": path, "live": [], "snap": [], "status": "ok", "d0": len(ctx.draws), "data": None, "mem": mem.get(str(pi))}
        sources.append(s)
        try:
            if s["mem"] is not None:
                se = {"source": {"uri": s["mem"]["uri"], "data": s["mem"]["text"], "mediaType": s["mem"]["mediaType"]}}
            else:
                se = next(it)
        except StopIteration:
            s["status"] = "missing"
            break
        except (OSError, UnicodeError) as e:
            s["status"], s["error"] = "unreadable", [type(e).__name__, str(e)]
            s["d1"] = len(ctx.draws)
            continue
        except (SimCancelled, SimKilled):
            raise
        except Exception as e:  # noqa: BLE001
            s["status"], s["error"] = "foreign-source", [type(e).__name__, str(e)]
            s["d1"] = len(ctx.draws)
            continue
        try:
            s["data"] = se["source"]["data"]
        except Exception:  # noqa: BLE001
            pass
        try:
            g = iter(ge.enum(se))  # an implementation may do work (and fail) already when the iterator is requested
        except (SimCancelled, SimKilled):
            ctx.obs = None
            raise
        except Exception as e:  # noqa: BLE001
            s["status"], s["error"] = "foreign", [type(e).__name__, str(e)]
            ctx.obs = None
            s["d1"] = len(ctx.draws)
            continue
        try:
            while True:
                if budget is not None and taken >= budget:
                    s["status"] = "abandoned"
                    stop = True
                    if cons.get("throw") and hasattr(g, "throw"):
                        try:  # the consumer fails while holding the generator: its exception is raised at the yield
                            g.throw(RuntimeError("consumer failed"))
                        except (RuntimeError, StopIteration):
                            pass
                    elif cons.get("close") and hasattr(g, "close"):
                        g.close()
                    break
                try:
                    ev = next(g)
                except StopIteration:
                    break
                if not drop:
                    s["live"].append(ev)
                s["snap"].append(copy.deepcopy(ev))
                del ev
                taken += 1
                if k is not None:
                    k.yield_point("env")
        except (SimCancelled, SimKilled):
            ctx.obs = None
            raise
        except Exception as e:  # noqa: BLE001
            s["status"], s["error"] = "foreign", [type(e).__name__, str(e)]
        ctx.obs = None
        s["d1"] = len(ctx.draws)
        if stop:
            break
        if op.get("also") is not None and s["status"] == "ok":
            # the SAME event object is handed to a second stream afterwards (one SourceEvents pass, two consumers)
            s2 = {"path": path, "live": [], "snap": [], "status": "ok", "d0": len(ctx.draws), "data": None, "mem": s.get("mem"), "sidx": op["also"]}
            sources.append(s2)
            try:
                s2["data"] = se["source"]["data"]
                for ev in ts.streams[op["also"]].enum(se):
                    if not drop:
                        s2["live"].append(ev)
                    s2["snap"].append(copy.deepcopy(ev))
                    if k is not None:
                        k.yield_point("env")
            except (SimCancelled, SimKilled):
                ctx.obs = None
                raise
            except Exception as e:  # noqa: BLE001
                s2["status"], s2["error"] = "foreign", [type(e).__name__, str(e)]
            ctx.obs = None
            s2["d1"] = len(ctx.draws)
    draws = ctx.draws[d_op:]
    norm = []
    for s in sources:
        pos = engine._pos(ctx.draws[s["d0"]:s.get("d1", len(ctx.draws))])
        s["norm"] = [norm_env(e, pos) for e in s["snap"]]
        norm.append([s["path"], s["status"], s.get("error"), s["norm"]])
    return {"op": "stream", "kind": "stream", "sources": sources, "raw": None if drop else [s["live"] for s in sources], "snap": [s["snap"] for s in sources],
            "norm": norm, "draws": draws, "reads": 0, "toks": 0, "dirty": [], "abandoned": stop}


def run_cli(ts, op):
    """scripts.generate_events.main() in-process: argv set, stdout captured."""
    import scripts.generate_events as cli
    ctx = ts.ctx
    d0 = len(ctx.draws)
    old_argv, old_out = sys.argv, sys.stdout
    buf = io.StringIO()
    err = None
    try:
        sys.argv = ["generate_events"] + list(op["argv"])
        sys.stdout = buf
        cli.main()
    except (SimCancelled, SimKilled):
        raise
    except SystemExit as e:
        err = ["SystemExit", str(e.code)]
    except Exception as e:  # noqa: BLE001
        err = [type(e).__name__, str(e)]
    finally:
        sys.argv, sys.stdout = old_argv, old_out
    ctx.obs = None
    draws = ctx.draws[d0:]
    pos = engine._pos(draws)
    envs, bad = [], None
    for i, line in enumerate(buf.getvalue().split("\n")):
        if not line:
            continue
        try:
            envs.append(json.loads(line))
        except ValueError as e:
            bad = "stdout line %d is not JSON: %s" % (i + 1, e)
            break
    norm = [norm_env(e, pos) for e in envs]
    return {"op": "cli", "kind": "cli", "raw": None, "snap": envs, "norm": norm, "error": err, "bad_line": bad, "draws": draws,
            "reads": 0, "toks": 0, "dirty": []}


def estimate_stream_steps(run, ts, op):
    fs = engine.seams.cur_fs()
    total = 4
    paths = op["paths"] if op["op"] == "stream" else [a for a in op["argv"] if not a.startswith("--")]
    for p in paths:
        text, why = readable(fs, p)
        if text is None:
            total += 2
            continue
        pr = engine.ALONE.parse(text, None, "ast", False, "text")
        total += pr["gates"] + 8
        if pr["kind"] == "doc":
            cr = engine.ALONE.compile(text, None, p)
            total += (len(cr["norm"]) if cr["kind"] == "pickles" else 1)
        elif isinstance(pr["norm"], list):
            total += len(pr["norm"])
    return total


def run_tokcli(ts, op):
    """scripts.generate_tokens.main() in-process: one Parser + TokenFormatterBuilder over several files."""
    import scripts.generate_tokens as cli
    ctx = ts.ctx
    old_argv, old_out = sys.argv, sys.stdout
    buf = io.StringIO()
    err = None
    try:
        sys.argv = ["generate_tokens"] + list(op["argv"])
        sys.stdout = buf
        cli.main()
    except (SimCancelled, SimKilled):
        raise
    except SystemExit as e:
        err = ["SystemExit", str(e.code)]
    except Exception as e:  # noqa: BLE001
        err = [type(e).__name__, str(e)[:200]]
    finally:
        sys.argv, sys.stdout = old_argv, old_out
    ctx.obs = None
    out = buf.getvalue()
    return {"op": "tokcli", "kind": "tokcli", "raw": None, "snap": None, "norm": [out, err and err[0]], "stdout": out, "error": err, "draws": [],
            "reads": 0, "toks": 0, "dirty": []}
