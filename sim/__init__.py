"""Deterministic simulation harness for cucumber/gherkin (Python). See /verif/DESIGN.md."""
