"""Shape validator for Cucumber Messages envelopes as the Python stream emits them.

Transcribed from gherkin/parser_types.py, the compiler's typed dictionaries and the Cucumber
Messages field lists: required keys, value types, fixed vocabularies, no nulls, no unknown keys.
`selfcheck()` must accept every *.feature.*.ndjson reference message under testdata (else the
validator - not the code - is wrong: harness error).
"""
from __future__ import annotations

import glob
import json
import os

STR, INT = "str", "int"
KEYWORD_TYPES = {"Unknown", "Context", "Action", "Outcome", "Conjunction"}
STEP_TYPES = {"Unknown", "Context", "Action", "Outcome"}
MEDIA_TYPES = {"text/x.cucumber.gherkin+plain", "text/x.cucumber.gherkin+markdown"}


def enum(values):
    return ("enum", frozenset(values))


def lst(item):
    return ("list", item)


def obj(required, optional=None, one_of=None):
    return ("obj", required, optional or {}, one_of)


LOCATION = obj({"line": INT}, {"column": INT})
COMMENT = obj({"location": LOCATION, "text": STR})
TAG = obj({"location": LOCATION, "name": STR, "id": STR})
CELL = obj({"location": LOCATION, "value": STR})
ROW = obj({"location": LOCATION, "cells": lst(CELL), "id": STR})
DOCSTRING = obj({"location": LOCATION, "content": STR, "delimiter": STR}, {"mediaType": STR})
DATATABLE = obj({"location": LOCATION, "rows": lst(ROW)})
STEP = obj({"location": LOCATION, "keyword": STR, "text": STR, "id": STR}, {"keywordType": enum(KEYWORD_TYPES), "docString": DOCSTRING, "dataTable": DATATABLE})
EXAMPLES = obj({"location": LOCATION, "tags": lst(TAG), "keyword": STR, "name": STR, "description": STR, "tableBody": lst(ROW), "id": STR}, {"tableHeader": ROW})
SCENARIO = obj({"location": LOCATION, "tags": lst(TAG), "keyword": STR, "name": STR, "description": STR, "steps": lst(STEP), "examples": lst(EXAMPLES), "id": STR})
BACKGROUND = obj({"location": LOCATION, "keyword": STR, "name": STR, "description": STR, "steps": lst(STEP), "id": STR})
RULE_CHILD = obj({}, {"background": BACKGROUND, "scenario": SCENARIO}, one_of=("background", "scenario"))
RULE = obj({"location": LOCATION, "tags": lst(TAG), "keyword": STR, "name": STR, "description": STR, "children": lst(RULE_CHILD), "id": STR})
FEATURE_CHILD = obj({}, {"rule": RULE, "background": BACKGROUND, "scenario": SCENARIO}, one_of=("rule", "background", "scenario"))
FEATURE = obj({"location": LOCATION, "tags": lst(TAG), "language": STR, "keyword": STR, "name": STR, "description": STR, "children": lst(FEATURE_CHILD)})
GHERKIN_DOCUMENT = obj({"comments": lst(COMMENT)}, {"uri": STR, "feature": FEATURE})
PICKLE_DOCSTRING = obj({"content": STR}, {"mediaType": STR})
PICKLE_TABLE = obj({"rows": lst(obj({"cells": lst(obj({"value": STR}))}))})
PICKLE_ARG = obj({}, {"docString": PICKLE_DOCSTRING, "dataTable": PICKLE_TABLE}, one_of=("docString", "dataTable"))
PICKLE_STEP = obj({"astNodeIds": lst(STR), "id": STR, "text": STR}, {"type": enum(STEP_TYPES), "argument": PICKLE_ARG})
PICKLE_TAG = obj({"name": STR, "astNodeId": STR})
PICKLE = obj({"id": STR, "uri": STR, "name": STR, "language": STR, "steps": lst(PICKLE_STEP), "tags": lst(PICKLE_TAG), "astNodeIds": lst(STR)})
SOURCE = obj({"uri": STR, "data": STR, "mediaType": enum(MEDIA_TYPES)})
PARSE_ERROR = obj({"source": obj({}, {"uri": STR, "location": LOCATION}), "message": STR})
ENVELOPE = obj({}, {"source": SOURCE, "gherkinDocument": GHERKIN_DOCUMENT, "pickle": PICKLE, "parseError": PARSE_ERROR},
               one_of=("source", "gherkinDocument", "pickle", "parseError"))


def validate(value, schema=ENVELOPE, path="$", out=None):
    """Returns a list of (path, problem) - empty when the value has the prescribed shape."""
    if out is None:
        out = []
    if value is None:
        out.append((path, "null"))
        return out
    if schema == STR:
        if not isinstance(value, str):
            out.append((path, "expected string, got %s" % type(value).__name__))
        return out
    if schema == INT:
        if not isinstance(value, int) or isinstance(value, bool):
            out.append((path, "expected integer, got %s" % type(value).__name__))
        return out
    kind = schema[0]
    if kind == "enum":
        if not isinstance(value, str) or value not in schema[1]:
            out.append((path, "value %r not in vocabulary %s" % (value, sorted(schema[1]))))
        return out
    if kind == "list":
        if not isinstance(value, list):
            out.append((path, "expected list, got %s" % type(value).__name__))
            return out
        for i, v in enumerate(value):
            validate(v, schema[1], "%s[%d]" % (path, i), out)
        return out
    if kind == "obj":
        _, required, optional, one_of = schema
        if not isinstance(value, dict):
            out.append((path, "expected object, got %s" % type(value).__name__))
            return out
        for k in required:
            if k not in value:
                out.append((path + "." + k, "required field missing"))
        for k, v in value.items():
            if not isinstance(k, str):
                out.append((path, "non-string key %r" % (k,)))
                continue
            sub = required.get(k) or optional.get(k)
            if sub is None:
                out.append((path + "." + k, "unknown field"))
            else:
                validate(v, sub, path + "." + k, out)
        if one_of is not None:
            present = [k for k in one_of if k in value]
            if len(present) != 1:
                out.append((path, "expected exactly one of %s, got %s" % (list(one_of), present)))
        return out
    raise ValueError("bad schema")


def check_json(value):
    """JSON-serialisable and round-trips unchanged."""
    try:
        s = json.dumps(value)
    except (TypeError, ValueError) as e:
        return "not JSON-serialisable: %s" % e
    try:
        back = json.loads(s)
    except ValueError as e:
        return "does not parse back: %s" % e
    if back != value:
        return "JSON round trip changes the value"
    return None


def selfcheck(repo):
    """(number of reference messages accepted, list of problems)."""
    n, problems = 0, []
    for sub, kinds in (("good", ("ast", "pickles", "source")), ("bad", ("errors",))):
        for kind in kinds:
            for p in sorted(glob.glob(os.path.join(repo, "testdata", sub, "*.feature.%s.ndjson" % kind))):
                with open(p, encoding="utf-8") as f:
                    for ln, line in enumerate(f, 1):
                        if not line.strip():
                            continue
                        n += 1
                        pr = validate(json.loads(line))
                        if pr:
                            problems.append("%s:%d %s" % (os.path.basename(p), ln, pr[:2]))
    return n, problems
