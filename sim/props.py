"""Per-property plans, worker loop, merge, evidence, replay, known findings."""
from __future__ import annotations

import json
import os
import random
import shutil
import sys
import time

from . import engine, seams, workload
from .runner import VERIF, REPO, splitmix64, h48, run_workers

DET_SAMPLE = 48  # run indices per sampled scenario that are re-executed by shadow workers
MAX_REPORTED = 12  # violations kept per worker (with full spec)


class Harness(Exception):
    pass


def scaled(n):
    """VERIF_SCALE multiplies the number of SAMPLED runs (enumerated scenarios are always complete)."""
    try:
        return max(1, int(n * float(os.environ.get("VERIF_SCALE", "1")))) if n else n
    except ValueError:
        return n


# ----------------------------------------------------------------------------- property definitions
class Prop:
    owns_determinism = False
    id = "?"
    level = "exploration"
    scenarios = {}  # name -> {"quick": n | "all", "thorough": n | "all", "sampled": bool}

    def count(self, scen, tier):
        raise NotImplementedError

    def spec(self, scen, index, seed):
        raise NotImplementedError

    def hooks(self, spec):
        return []

    def account(self, acc, spec, out):
        """Update worker accumulators from one executed run."""

    def finish(self, merged, tier):
        """(coverage dict additions, rule text)"""
        return {}, ""


class C15(Prop):
    owns_determinism = True
    id = "C15"
    scen_order = ["pairs", "dialects", "nested", "nested-all", "triples", "sweep", "reuse", "interleave"]
    counts = {
        "quick": {"pairs": "all", "dialects": "all", "nested": "all", "nested-all": 0, "triples": 0, "sweep": 0, "reuse": 4000, "interleave": 10000},
        "thorough": {"pairs": "all", "dialects": "all", "nested": 0, "nested-all": "all", "triples": "all", "sweep": "all", "reuse": 120000, "interleave": 700000},
    }

    def count(self, scen, tier):
        from . import scen_c15
        c = self.counts[tier][scen]
        if c == "all":
            return {"pairs": scen_c15.n_pairs, "sweep": scen_c15.n_sweep, "dialects": scen_c15.n_dialects, "triples": scen_c15.n_triples,
                    "nested": scen_c15.n_nested, "nested-all": lambda: scen_c15.n_nested(True)}[scen]()
        return scaled(c)

    def spec(self, scen, index, seed):
        from . import scen_c15
        if scen == "pairs":
            return scen_c15.pair_spec(index)
        if scen == "triples":
            return scen_c15.triple_spec(index)
        if scen == "sweep":
            return scen_c15.sweep_spec(index)
        if scen == "dialects":
            return scen_c15.dialect_spec(index)
        if scen in ("nested", "nested-all"):
            return scen_c15.nested_spec(index, scen == "nested-all")
        rng = random.Random(splitmix64(seed, "C15/" + scen, index))
        return scen_c15.gen_reuse(rng) if scen == "reuse" else scen_c15.gen_interleave(rng)

    def account(self, acc, spec, out):
        st = out["stats"]
        acc["evaluations"] += st["ops"]
        nt = acc["nontrivial"]
        if spec["scenario"] == "interleave":
            if st["switches_inside"] > 0:
                docs = [[op.get("text") for op in t["ops"]] for t in spec["tasks"]]
                nt.add(h48(["il", docs, out["schedule"]]))
            acc["schedules"].add(h48(out["schedule"]))
            states = acc["extra"].setdefault("parser_states_in_flight", [])
            for j in st["joint"]:
                acc["joint"].add(h48(j))
                for obs in j:
                    if obs and obs[0] not in states:
                        states.append(obs[0])
        else:
            task = spec["tasks"][0]
            prev = {}
            recs = out.get("_records")
            for oi, op in enumerate(task["ops"]):
                if op["op"] != "parse":
                    continue
                key = (op["p"], op.get("m"))
                dirty = recs[oi] if recs else []
                if dirty and key[0] in prev:
                    nt.add(h48(["ru", spec.get("config") or [task["parsers"][op["p"]], task["matchers"][op["m"]] if op.get("m") is not None else None],
                                prev[key[0]], op["text"], op.get("first", False)]))
                prev[key[0]] = op["text"]
        for k, v in st["dirty"].items():
            acc["dirty"][k] = acc["dirty"].get(k, 0) + v

    def finish(self, merged, tier):
        from . import scen_c15
        runs = merged["runs"]
        cov = {
            "pairs_total": scen_c15.n_pairs(), "pairs_done": runs.get("pairs", 0), "pairs_exhaustive": runs.get("pairs", 0) == scen_c15.n_pairs(),
            "triples_total": scen_c15.n_triples(), "triples_done": runs.get("triples", 0),
            "pool_documents": len(workload.pool()), "configurations": [c["name"] for c in scen_c15.CONFIGS],
            "dialect_pairs_done": runs.get("dialects", 0), "dialect_pairs_total": scen_c15.n_dialects(),
            "sweep_all_two_task_interleavings_done": runs.get("sweep", 0), "sweep_total": scen_c15.n_sweep() if runs.get("sweep") else None,
            "sweep_documents": [d[0] for d in scen_c15.SWEEP_DOCS],
            "nested_one_thread_pairs_x_gaps_done": runs.get("nested", 0) + runs.get("nested-all", 0),
            "nested_one_thread_total_every_gap": scen_c15.n_nested(True) if runs.get("nested-all") else None,
            "schedules_distinct": len(merged["schedules"]), "joint_states_distinct": len(merged["joint"]),
            "parser_states_total": _parser_states_total(),
            "dirty_probe_hits": merged["dirty"],
        }
        rule = ("evaluations = operations whose result was compared with the same operation on fresh instances run alone. "
                "distinct_nontrivial = distinct (instance configuration, predecessor document on that parser, document, error mode) of reuse steps whose "
                "parser/matcher/builder carried stale state when the operation began (a dirty-state probe fired: dialect != default, open doc-string delimiter, "
                "indent to remove, leftover comments, unwound builder stack, leftover tokens, first-error flag) PLUS distinct (document set, schedule) of "
                "interleaved runs with at least one context switch between two token reads of the same parse. Enumerated part: all ordered pairs "
                "(thorough: and triples) of the committed pool x instance configurations x error-mode combinations; sampled part: seeded histories "
                "and interleavings over pool, acceptance corpus and generated/damaged documents.")
        return cov, rule


def _parser_states_total():
    try:
        import gherkin.parser as gp
        return sum(1 for k in vars(gp.Parser) if k.startswith("match_token_at_"))
    except Exception:  # noqa: BLE001
        return None


PROPS = {"C15": C15()}
PLANS = PROPS


def get_prop(pid):
    if pid not in PROPS:
        from . import prop_c11, prop_c17  # noqa: F401  (register)
    if pid not in PROPS:
        raise Harness("no check for property " + pid)
    return PROPS[pid]


# ----------------------------------------------------------------------------- reference table
TABLE_CONFIGS = [({"c": "tm", "d": "en"}, "ast", False), ({"c": "tm", "d": "en"}, "ast", True), ({"c": "tm", "d": "fr"}, "ast", False),
                 ({"c": "tm", "d": "en"}, "tok", False), (None, "ast", False)]


def reference_table(include_corpus=True):
    """Digests of fresh-instance results for the pool (and corpus); computed with a private cache."""
    seams.install()
    al = engine.Alone()
    docs = list(workload.pool()) + (list(workload.corpus()) + list(workload.dialect_docs()) if include_corpus else [])
    tab = {}
    for name, text in docs:
        row = []
        for ms, b, first in TABLE_CONFIGS:
            r = al.parse(text, ms, b, first, "text")
            row.append(engine.dig([r["kind"], r["norm"], r["reads"]]))
        c = al.compile(text, {"c": "tm", "d": "en"}, "t.feature")
        row.append(engine.dig([c["kind"], c.get("norm")]))
        tab[name] = row
        if name == "00-minimal":
            r = al.parse(text, {"c": "tm", "d": "en"}, "ast", False, "text")
            if r["kind"] != "doc" or c["kind"] != "pickles" or r["gates"] < 4 or r["reads"] < 4 or not r["draws"]:
                raise Harness("sanity: the reference parse of the minimal pool document is %s/%s (gates %s, reads %s, draws %s): %s" % (
                    r["kind"], c["kind"], r["gates"], r["reads"], len(r["draws"]), engine.excerpt(r["norm"])))
    return tab


def module_fingerprint():
    """Fingerprint of mutable module-level state in gherkin.* (observation only)."""
    import types
    parts = []
    for name in sorted(sys.modules):
        if name == "gherkin" or name.startswith("gherkin."):
            m = sys.modules[name]
            for k in sorted(vars(m)):
                v = vars(m)[k]
                if isinstance(v, (dict, list, set)) and not k.startswith("__"):
                    try:
                        parts.append((name, k, engine.dig(v if not isinstance(v, set) else sorted(v, key=repr))))
                    except Exception:  # noqa: BLE001
                        parts.append((name, k, "?"))
                elif isinstance(v, type) and getattr(v, "__module__", None) == name:
                    for ak in sorted(vars(v)):
                        av = vars(v)[ak]
                        if isinstance(av, (dict, list, set)) and not isinstance(av, types.MappingProxyType):
                            try:
                                parts.append((name, k + "." + ak, engine.dig(av if not isinstance(av, set) else sorted(av, key=repr))))
                            except Exception:  # noqa: BLE001
                                parts.append((name, k + "." + ak, "?"))
    return engine.dig(parts)


# ----------------------------------------------------------------------------- worker
def new_acc():
    return {"evaluations": 0, "nontrivial": set(), "schedules": set(), "joint": set(), "dirty": {}, "faults": {}, "extra": {}}


def run_one(prop, spec, schedule=None):
    hooks = prop.hooks(spec)
    run = engine.Run(spec, schedule if schedule is not None else spec.get("explicit_schedule"), spec.get("oracles"))
    run.hooks.extend(hooks)
    out = run.execute()
    out["_records"] = [r.get("dirty", []) for r in run.states[0].records] if len(run.states) == 1 else None
    out["_run"] = run
    return out


def count_faults(acc, spec, out):
    f = acc["faults"]

    def bump(k, n=1):
        if n:
            f[k] = f.get(k, 0) + n

    for lb in _flatten(spec.get("labels", [])):
        if "eof@" in lb or "trunc" in lb:
            bump("truncate")
        if "+" in lb and any(k in lb for k in ("delete", "duplicate", "swap", "splice", "junk")):
            bump("damaged_document")
    st = out["stats"]
    bump("cancel", st.get("cancelled", 0))
    bump("abort_first_error", st.get("abort_first", 0))
    bump("abort_error_cap", st.get("abort_cap", 0))
    for k, v in st.get("fs", {}).items():
        if k in ("short_read", "open_error", "read_error"):
            bump(k, v)
    cfg = spec.get("cfg", {})
    if cfg.get("nest") is not None:
        bump("tasks_nested_on_one_thread")
    if cfg.get("migrate"):
        bump("history_migrates_between_threads")
    if cfg.get("policy") == "starve":
        bump("starve")
    if cfg.get("drop"):
        bump("results_dropped_by_consumer")
    if cfg.get("genclass") in ("journal", "duck"):
        bump("user_generator_" + cfg["genclass"])
    if spec.get("shared_generator"):
        bump("tasks_share_one_generator")
    for t in spec["tasks"]:
        for op in t["ops"]:
            k = op["op"]
            if k == "write":
                bump("file_rewritten_between_reads")
            elif k == "setopts":
                bump("options_changed_on_live_stream")
            elif k == "setmode":
                bump("stream_parser_set_to_stop_at_first_error")
            elif k == "compile" and op.get("attach") == "json":
                bump("document_compiled_after_json_round_trip")
            elif k == "tokcli":
                bump("token_listing_script")
            elif k == "stream":
                if op.get("events"):
                    bump("in_memory_source_event")
                if op.get("also") is not None:
                    bump("same_event_to_second_stream")
                if op.get("reenum"):
                    bump("source_events_re_enumerated")
                c = op.get("consumer") or {}
                if c.get("k") == "zip":
                    bump("interleaved_generators_of_one_stream")
                elif c.get("k") == "take":
                    bump("abandon_throw" if c.get("throw") else "abandon_close" if c.get("close") else "abandon_drop")
            for inst in (t.get("parsers") or []) + (t.get("compilers") or []):
                pass
        if any(i.get("late") for i in (t.get("parsers") or []) + (t.get("compilers") or [])):
            bump("generator_wired_through_attribute")
    for k, v in st.get("faults", {}).items():
        bump(k, v)


def _flatten(x):
    for y in x:
        if isinstance(y, (list, tuple)):
            yield from _flatten(y)
        else:
            yield y


def run_worker(args):
    job = args["job"]
    t0 = time.time()
    seams.install()
    if job == "table":
        return {"name": args["name"], "table": reference_table(), "fingerprint": module_fingerprint(), "gate": seams.GATE}
    if job == "minimise":
        from . import minimise
        return minimise.job(args)
    if job == "once":
        from . import minimise
        return minimise.once_job(args)
    prop = get_prop(args["prop"])
    seed, w, n = args["seed"], args["w"], args["n"]
    acc = new_acc()
    out = {"name": args["name"], "runs": {}, "violations": [], "nviol": 0, "nnew": 0, "known_hits": {}, "digests": {}, "samples": [], "gate": seams.GATE}
    known = load_known()
    table_start = reference_table(include_corpus=False)
    fp_start = module_fingerprint()
    budget_s = 0.75 * args.get("wall_s", 3000)
    for scen, total in args["work"]:
        done = 0
        dg = {}
        sampled = scen not in ("pairs", "triples", "enum", "sweep", "dialects")
        if args.get("only_det"):
            indices = range(0, min(args.get("det_sample", DET_SAMPLE), total))
        else:
            indices = range(w, total, n)
        for pos, index in enumerate(indices):
            if time.time() - t0 > budget_s:
                # the code under test got so slow that the plan cannot be finished: stop here, say so, never claim the rest
                out["incomplete"] = out.get("incomplete", 0) + len(indices) - pos
                break
            spec = prop.spec(scen, index, seed)
            res = run_one(prop, spec)
            done += 1
            prop.account(acc, spec, res)
            count_faults(acc, spec, res)
            ex, st = acc["extra"], res["stats"]
            ex["sim_steps"] = ex.get("sim_steps", 0) + st["steps"]
            ex["tokens_delivered"] = ex.get("tokens_delivered", 0) + st["toks"]
            ex["scanner_reads"] = ex.get("scanner_reads", 0) + st["reads"]
            ex["operations_ending_in_a_foreign_exception"] = ex.get("operations_ending_in_a_foreign_exception", 0) + st["foreign"]
            ex["context_switches_inside_a_parse"] = ex.get("context_switches_inside_a_parse", 0) + st["switches_inside"]
            if sampled and index < args.get("det_sample", DET_SAMPLE):
                dg[str(index)] = [res["digest"], res["sched_digest"], bool(res["violations"])]
            if res["violations"]:
                out["nviol"] += 1
                rep = {"scenario": scen, "index": index, "spec": spec, "schedule": res["schedule"],
                       "violations": res["violations"], "digest": res["digest"],
                       "origin": {"w": w, "n": n, "work": args["work"], "only_det": bool(args.get("only_det")), "det_sample": args.get("det_sample", DET_SAMPLE)}}
                if hasattr(prop, "annotate"):
                    prop.annotate(rep)
                kf = match_known(prop.id, rep, known)
                if kf is not None:
                    out["known_hits"][kf["id"]] = out["known_hits"].get(kf["id"], 0) + 1
                else:
                    out["nnew"] += 1
                    if len(out["violations"]) < MAX_REPORTED:
                        out["violations"].append(rep)
            elif len(out["samples"]) < 2 and done > 3 and len(json.dumps(spec)) < 6000:
                out["samples"].append({"scenario": scen, "index": index, "spec": spec, "schedule": res["schedule"], "digest": res["digest"]})
        out["runs"][scen] = done
        out["digests"][scen] = dg
    table_end = reference_table(include_corpus=False)
    out["table_start"], out["table_end"] = table_start, table_end
    out["fp_changed"] = module_fingerprint() != fp_start
    out["acc"] = {"evaluations": acc["evaluations"], "nontrivial": sorted(acc["nontrivial"]), "schedules": sorted(acc["schedules"]),
                  "joint": sorted(acc["joint"]), "dirty": acc["dirty"], "faults": acc["faults"], "extra": acc["extra"]}
    out["wall"] = time.time() - t0
    out["alone_computed"] = engine.ALONE.computed
    return out


# ----------------------------------------------------------------------------- known findings
def load_known():
    p = os.path.join(VERIF, "known_findings.json")
    if not os.path.exists(p):
        return {"findings": [], "fixed": []}
    with open(p) as f:
        return json.load(f)


def match_known(prop_id, report, known):
    """A reported violating run matches an open finding only by its specific signature."""
    for kf in known.get("findings", []):
        if kf.get("status") != "open" or kf.get("property") != prop_id:
            continue
        sig = kf["signature"]
        vs = report["violations"]
        if all(v["oracle"] in sig["oracle"] for v in vs) and all(v.get("fault") == sig.get("fault") for v in vs):
            if sig.get("fault") and not report.get("passes_without_fault"):
                continue  # the violation must vanish once that one fault is removed
            return kf
    return None


# ----------------------------------------------------------------------------- check driver
def run_check(pid, tier, seed, nworkers):
    t0 = time.time()
    prop = get_prop(pid)
    from . import idmodel, shape
    n1, pr1 = idmodel.selfcheck(REPO)
    n2, pr2 = shape.selfcheck(REPO)
    if pr1 or pr2 or not n1 or not n2:
        raise Harness("reference self-check failed (model/validator vs testdata): %s" % ((pr1 + pr2)[:3] or "no reference files found"))
    work = [(s, prop.count(s, tier)) for s in prop.scen_order if prop.count(s, tier)]
    import glob
    for old in glob.glob(os.path.join(VERIF, "replays", pid + "-*.json")):
        os.remove(old)
    wd = os.path.join(VERIF, ".work", "%s-%s-%d" % (pid, tier, os.getpid()))
    shutil.rmtree(wd, ignore_errors=True)
    os.makedirs(wd)
    wall = 900 if tier == "quick" else 6 * 3600
    try:
        jobs = []
        for hs_i, hs in enumerate((0, 1 + splitmix64(seed, "hs", 1) % 4000000000, 1 + splitmix64(seed, "hs", 2) % 4000000000)):
            jobs.append(({"job": "table", "name": "table%d" % hs_i, "out": os.path.join(wd, "table%d.json" % hs_i), "wall_s": wall, "env_variant": hs_i}, hs))
        for w in range(nworkers):
            jobs.append(({"job": "runs", "name": "w%d" % w, "prop": pid, "tier": tier, "seed": seed, "w": w, "n": nworkers, "work": work,
                          "out": os.path.join(wd, "w%d.json" % w), "wall_s": wall}, 1 + splitmix64(seed, "whs", w) % 4000000000))
        sampled = [(s, c) for s, c in work if s not in ("pairs", "triples", "enum", "sweep", "dialects")]
        for sh in range(2):
            jobs.append(({"job": "runs", "name": "shadow%d" % sh, "prop": pid, "tier": tier, "seed": seed, "w": 0, "n": 1, "work": sampled, "only_det": True,
                          "out": os.path.join(wd, "shadow%d.json" % sh), "wall_s": wall, "env_variant": sh + 1}, 1 + splitmix64(seed, "shs", sh) % 4000000000))
        results, errors = run_workers(jobs, wall)
        if errors:
            raise Harness("; ".join(errors))
        tables, workers, shadows = results[:3], results[3:3 + nworkers], results[3 + nworkers:]
        problems = []  # (kind, text) - code-attributed nondeterminism => violation, else harness error
        ref = tables[0]["table"]
        for t in tables[1:]:
            if t["table"] != ref:
                bad = [k for k in ref if ref[k] != t["table"].get(k)]
                problems.append(("det", "fresh-interpreter results differ between PYTHONHASHSEEDs for documents %s" % bad[:5]))
        refpool = {k: v for k, v in ref.items() if not (k.startswith("good/") or k.startswith("bad/") or k.startswith("dialect/"))}
        for r in workers + shadows:
            if r["table_start"] != refpool:
                bad = [k for k in refpool if refpool[k] != r["table_start"].get(k)]
                problems.append(("det", "worker %s: fresh-instance results at start differ from pristine interpreter for %s" % (r["name"], bad[:5])))
            elif r["table_end"] != refpool:
                bad = [k for k in refpool if refpool[k] != r["table_end"].get(k)]
                problems.append(("poison", "worker %s: fresh-instance results after the runs differ from pristine interpreter for %s (module-level state polluted)" % (r["name"], bad[:5])))
        # determinism: same run index => same digest in primary worker and both shadows
        prim = {}
        for r in workers:
            for scen, dg in r["digests"].items():
                for k, v in dg.items():
                    prim[(scen, k)] = v
        det_checked = 0
        incomplete = sum(r.get("incomplete", 0) for r in workers + shadows)
        for r in ([] if incomplete else shadows):
            for scen, dg in r["digests"].items():
                for k, v in dg.items():
                    det_checked += 1
                    pv = prim.get((scen, k))
                    if pv is not None and (pv[2] or v[2]):
                        continue  # the run is reported as a violation anyway
                    if pv is None or pv[1] != v[1]:
                        problems.append(("replay", "run %s/%s: spec/schedule digest differs between interpreters (%s vs %s)" % (scen, k, pv and pv[1][:12], v[1][:12])))
                    elif pv[0] != v[0]:
                        problems.append(("det", "run %s/%s: same operations and same schedule gave different results in two interpreters "
                                                "(process history or hash seed leaks into results)" % (scen, k)))
        merged = merge(workers)
        merged["det_checked"] = det_checked
        merged["hashseeds"] = [hs for _, hs in jobs]
        # violations -> minimise -> replay files
        reports = [v for r in workers for v in r["violations"]]
        nviol_runs = sum(r["nviol"] for r in workers)
        new_runs = sum(r["nnew"] for r in workers)
        known = load_known()
        lines, new_viol, known_hits = [], 0, {}
        for r in workers:
            for k, v in r["known_hits"].items():
                known_hits[k] = known_hits.get(k, 0) + v
        os.makedirs(os.path.join(VERIF, "replays"), exist_ok=True)
        reports.sort(key=lambda r: len(json.dumps(r["spec"])))
        minimised = minimise_reports(pid, reports[:4], wd, wall, seed) if reports else []
        for rep in minimised:
            path = os.path.join(VERIF, "replays", "%s-%s-%d.json" % (pid, rep["scenario"], rep["index"]))
            with open(path, "w") as f:
                json.dump({"property": pid, "seed": seed, "scenario": rep["scenario"], "index": rep["index"], "spec": rep["spec"],
                           "schedule": rep["schedule"], "violations": rep["violations"], "digest": rep["digest"],
                           "minimised": rep.get("minimised", False), "original_size": rep.get("original_size"), "minimised_size": rep.get("minimised_size"),
                           "minimiser_runs": rep.get("minimiser_runs"), "prefix": rep.get("prefix") or [], "note": rep.get("note")}, f, indent=1)
            v0 = rep["violations"][0]
            lines.append("VIOLATION property=%s replay=%s" % (pid, path))
            lines.append("  oracle=%s task=%s op=%s at %s" % (v0["oracle"], v0["task"], v0["op"], v0["path"]))
            lines.append("  expected: %s" % v0.get("expected"))
            lines.append("  actual:   %s" % v0.get("actual"))
        new_viol = new_runs
        seen_kinds = set()
        for kind, text in problems:
            if kind in ("det", "poison") and kind not in seen_kinds:
                seen_kinds.add(kind)
                if not prop.owns_determinism:
                    lines.append("NOTE: %s (determinism and module-state independence are decided by the C15 check, not here)" % text)
                    continue
                path = os.path.join(VERIF, "replays", "%s-%s.json" % (pid, kind))
                with open(path, "w") as f:
                    json.dump({"property": pid, "seed": seed, "kind": kind, "detail": text}, f, indent=1)
                lines.append("VIOLATION property=%s replay=%s" % (pid, path))
                lines.append("  " + text)
                new_viol += 1
        harness_problems = [t for k, t in problems if k == "replay"]
        for kf in known.get("findings", []):
            if kf.get("status") == "open" and kf.get("property") == pid:
                lines.append("KNOWN-FINDING: property=%s %s: %s (hit %d times in this run)" % (pid, kf["id"], kf["what"], known_hits.get(kf["id"], 0)))
        wall_s = time.time() - t0
        write_evidence(prop, tier, seed, merged, wall_s, new_viol, known_hits, nworkers)
        for ln in lines:
            print(ln)
        total_runs = sum(merged["runs"].values())
        print("%s %s: %d runs, %d evaluations, %d distinct non-trivial, %d violating runs (%d new), %.1fs, %.0f runs/hour" % (
            pid, tier, total_runs, merged["evaluations"], len(merged["nontrivial"]), nviol_runs, new_viol, wall_s, total_runs / wall_s * 3600))
        if incomplete:
            print("NOTE: %d planned runs were not executed: the workers used up three quarters of their wall-clock limit (the code under test became much slower than on the reference tree)" % incomplete)
            if not new_viol:
                raise Harness("time budget exhausted before all planned runs were executed, and no violation among those that were")
        if harness_problems and not new_viol:
            raise Harness("nondeterministic replay: " + "; ".join(harness_problems[:3]))
        if harness_problems:
            print("NOTE: %d runs also replayed differently between interpreters (consistent with the violations above)" % len(harness_problems))
        return 1 if new_viol else 0
    finally:
        shutil.rmtree(wd, ignore_errors=True)
        try:
            os.rmdir(os.path.join(VERIF, ".work"))
        except OSError:
            pass


def merge(workers):
    m = {"runs": {}, "evaluations": 0, "nontrivial": set(), "schedules": set(), "joint": set(), "dirty": {}, "faults": {}, "extra": {},
         "samples": [], "gate": workers[0]["gate"], "alone_computed": 0, "fp_changed": 0}
    for r in workers:
        for k, v in r["runs"].items():
            m["runs"][k] = m["runs"].get(k, 0) + v
        a = r["acc"]
        m["evaluations"] += a["evaluations"]
        m["nontrivial"].update(a["nontrivial"])
        m["schedules"].update(a["schedules"])
        m["joint"].update(a["joint"])
        for key in ("dirty", "faults"):
            for k, v in a[key].items():
                m[key][k] = m[key].get(k, 0) + v
        for k, v in a["extra"].items():
            if isinstance(v, list):
                m["extra"].setdefault(k, set()).update(v)
            elif isinstance(v, dict):
                d = m["extra"].setdefault(k, {})
                for kk, vv in v.items():
                    d[kk] = d.get(kk, 0) + vv
            else:
                m["extra"][k] = m["extra"].get(k, 0) + v
        if len(m["samples"]) < 3:
            m["samples"].extend(r["samples"][:1])
        m["alone_computed"] += r["alone_computed"]
        m["fp_changed"] += 1 if r["fp_changed"] else 0
    return m


def minimise_reports(pid, reports, wd, wall, seed=0):
    jobs = []
    for i, rep in enumerate(reports):
        jobs.append(({"job": "minimise", "name": "min%d" % i, "prop": pid, "seed": seed, "report": rep, "out": os.path.join(wd, "min%d.json" % i),
                      "wall_s": 1500, "budget_s": 60, "budget_runs": 2000}, 0))
    results, errors = run_workers(jobs, 1600)
    out = []
    for rep, res in zip(reports, results):
        out.append(res["report"] if res and res.get("report") else rep)
    return out


def write_evidence(prop, tier, seed, merged, wall_s, violations, known_hits, nworkers):
    cov_extra, rule = prop.finish(merged, tier)
    total_runs = sum(merged["runs"].values())
    cov = {
        "evaluations": merged["evaluations"],
        "distinct_nontrivial": len(merged["nontrivial"]),
        "rule": rule,
        "samples": merged["samples"][:3] or [{"note": "no sample small enough to print"}],
        "exhaustive": False,
        "runs": merged["runs"], "runs_total": total_runs, "runs_per_hour": round(total_runs / max(wall_s, 1e-6) * 3600),
        "faults_fired": merged["faults"],
        "gate": merged["gate"],
        "hashseeds": merged.get("hashseeds", []),
        "process_environments_compared": "reference tables and shadow re-executions run under 3 environments: default; LC_ALL=C PYTHONUTF8=0 TZ=Pacific/Kiritimati cwd=/; LC_ALL=C.UTF-8 LANG=tr_TR.UTF-8 PYTHONUTF8=1 TZ=America/St_Johns cwd=/tmp",
        "determinism_digests_cross_checked": merged.get("det_checked", 0),
        "workers": nworkers,
        "fresh_reference_results_computed": merged["alone_computed"],
        "workers_whose_module_fingerprint_changed": merged["fp_changed"],
        "known_findings_hit": known_hits,
        "components": {
            "real": ["gherkin.parser.Parser (generated state machine, look-ahead)", "TokenScanner.read", "GherkinLine", "TokenMatcher", "GherkinInMarkdownTokenMatcher",
                     "AstBuilder", "AstNode", "TokenFormatterBuilder", "pickles.Compiler", "stream.IdGenerator (wrapped for recording)", "stream.GherkinEvents",
                     "stream.SourceEvents/source_event", "scripts.generate_events.main", "CPython TextIOWrapper/BufferedReader"],
            "stub": ["raw byte source and directory (SimRaw, SimFS)", "thread scheduler (baton-passing kernel)", "consumer of the stream"],
        },
        "simulated_time": "none: the package has no clock or timer; scheduler steps (sim_steps), tokens delivered and scanner reads are reported instead",
        "run_seeds": "splitmix64(VERIF_SEED, '<property>/<scenario>', run index); enumerated scenarios are seed-independent",
    }
    for k, v in merged["extra"].items():
        cov[k] = len(v) if isinstance(v, set) else v
    cov.update(cov_extra)
    ev = {"property_id": prop.id, "tier": tier, "seed": seed, "level": prop.level, "coverage": cov,
          "assumptions": ["context switches only at token-read boundaries (Parser.read_token / TokenScanner.read) and between operations",
                          "reference results come from the same code on fresh instances: plain parsing bugs that show alone and in company alike are out of scope",
                          "a clean batch is evidence about the sampled schedules, histories and faults, not a proof"],
          "wall_s": round(wall_s, 2), "violations": violations}
    # tools/ that run the checks against scratch copies (mutants, seeded changes, refactorings) redirect their evidence
    evdir = os.environ.get("VERIF_EVIDENCE_DIR") or os.path.join(VERIF, "evidence")
    os.makedirs(evdir, exist_ok=True)
    with open(os.path.join(evdir, prop.id + ".json"), "w") as f:
        json.dump(ev, f, indent=1, default=repr)


# ----------------------------------------------------------------------------- replay
def replay(pid, path):
    seams.install()
    with open(path) as f:
        rep = json.load(f)
    if "spec" not in rep:
        print("replay file describes a whole-check finding (%s): %s" % (rep.get("kind"), rep.get("detail")))
        print("re-run the check with VERIF_SEED=%s to reproduce" % rep.get("seed"))
        return 1
    prop = get_prop(rep.get("property", pid))
    for scen, index in rep.get("prefix") or []:
        try:
            run_one(prop, prop.spec(scen, index, rep.get("seed", 0)))
        except Exception:  # noqa: BLE001 - the prefix only has to put the process into the recorded state
            pass
    out = run_one(prop, rep["spec"], rep.get("schedule"))
    print("digest %s (recorded %s)%s" % (out["digest"], rep.get("digest"), "" if out["digest"] == rep.get("digest") else "  DIGEST-MISMATCH"))
    if out["violations"]:
        for v in out["violations"][:5]:
            print("  oracle=%s task=%s op=%s at %s\n    expected: %s\n    actual:   %s" % (v["oracle"], v["task"], v["op"], v["path"], v.get("expected"), v.get("actual")))
        same = {v["cls"] for v in out["violations"]} & {v["cls"] for v in rep.get("violations", [])}
        print("VIOLATION property=%s replay=%s%s" % (rep.get("property", pid), path, "" if same else "  (different violation class than recorded)"))
        return 1
    print("no violation on this tree")
    return 0
