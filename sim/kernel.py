"""Seeded cooperative scheduler: real threads, released one at a time (baton passing).

A run is a pure function of (choices drawn from the rng | explicit schedule, task code):
the only place where a switch can happen is `Kernel.yield_point`, and which parked task is
released next is decided here and nowhere else.  Logging never draws from the rng and never
reads a clock.
"""
from __future__ import annotations

import hashlib
import threading

POLICIES = ("uniform", "sticky50", "sticky80", "sticky95", "rr", "pct1", "pct2", "pct3", "starve")


class SimCancelled(BaseException):
    """Raised inside a task at a yield point: the caller thread is killed there."""


class SimKilled(BaseException):
    """Raised inside every parked task when the run is torn down (step cap)."""


class HarnessError(Exception):
    """The simulator itself failed (never reported as a property violation)."""


class Task:
    def __init__(self, idx, fn):
        self.idx = idx
        self.fn = fn
        self.sem = threading.Semaphore(0)
        self.thread = None
        self.done = False
        self.exc = None
        self.cancelled = False
        self.cancel_at = None  # cancel when the task's yield counter reaches this value
        self.yields = 0
        self.ctx = None  # seams.Ctx: counters and observation slot, attached by the engine

    @property
    def obs(self):
        return self.ctx.obs if self.ctx is not None else None


class Kernel:
    def __init__(self, policy="uniform", rng=None, schedule=None, step_cap=100000, wall_guard_s=60.0):
        self.policy = policy
        self.rng = rng
        self.explicit = list(schedule) if schedule is not None else None
        self.step_cap = step_cap
        self.wall_guard_s = wall_guard_s
        self.tasks = []
        self.sched_sem = threading.Semaphore(0)
        self.current = None
        self.killed = False
        self.overrun = False
        self.schedule = []  # task index released at each step
        self.events = []  # (step, task, label[, payload digest])
        self.joint = set()  # distinct joint observation vectors seen at scheduling decisions
        self.switches_inside = 0  # context switches away from a task that is in the middle of a parse
        self._prio = None
        self._pct_points = None
        self._victim = None
        self._last = None

    # ---- task side -------------------------------------------------------------------
    def spawn(self, fn):
        t = Task(len(self.tasks), fn)
        self.tasks.append(t)
        return t

    def yield_point(self, label):
        t = self.current
        if t is None or threading.current_thread() is not t.thread:
            return  # not under the scheduler (reference computations on the main thread)
        t.yields += 1
        self.events.append((len(self.schedule), t.idx, label))
        if t.cancel_at is not None and t.yields >= t.cancel_at:
            t.cancel_at = None
            raise SimCancelled()
        self.sched_sem.release()
        t.sem.acquire()
        if self.killed:
            raise SimKilled()

    def log(self, label, payload=""):
        t = self.current
        self.events.append((len(self.schedule), t.idx if t is not None else -1, label, payload))

    def _boot(self, t):
        t.sem.acquire()
        try:
            if self.killed:
                raise SimKilled()
            t.fn(t)
        except SimCancelled:
            t.cancelled = True
            self.events.append((len(self.schedule), t.idx, "cancelled"))
        except SimKilled:
            pass
        except BaseException as e:  # noqa: BLE001 - reported by the caller as a harness error
            t.exc = e
        finally:
            t.done = True
            self.sched_sem.release()

    # ---- scheduler side ----------------------------------------------------------------
    def _setup_policy(self, est_steps):
        p, rng, n = self.policy, self.rng, len(self.tasks)
        if p.startswith("pct"):
            d = int(p[3:])
            order = list(range(n))
            rng.shuffle(order)
            self._prio = {t: n + d - i for i, t in enumerate(order)}  # higher runs first
            self._pct_points = sorted(rng.randrange(max(1, est_steps)) for _ in range(d))
        elif p == "starve":
            self._victim = rng.randrange(n) if n else None

    def _choose(self, runnable):
        if self.explicit is not None:
            i = len(self.schedule)
            if i < len(self.explicit) and self.explicit[i] in runnable:
                return self.explicit[i]
            if self._last in runnable:
                return self._last
            return runnable[0]
        p, rng = self.policy, self.rng
        if len(runnable) == 1:
            return runnable[0]
        if p == "uniform":
            return runnable[rng.randrange(len(runnable))]
        if p.startswith("sticky"):
            keep = int(p[6:]) / 100.0
            if self._last in runnable and rng.random() < keep:
                return self._last
            others = [r for r in runnable if r != self._last] or runnable
            return others[rng.randrange(len(others))]
        if p == "rr":
            if self._last is None:
                return runnable[0]
            later = [r for r in runnable if r > self._last]
            return later[0] if later else runnable[0]
        if p.startswith("pct"):
            step = len(self.schedule)
            while self._pct_points and self._pct_points[0] <= step:
                self._pct_points.pop(0)
                if self._last is not None:
                    self._prio[self._last] = min(self._prio.values()) - 1
            return max(runnable, key=lambda r: self._prio[r])
        if p == "starve":
            others = [r for r in runnable if r != self._victim]
            if not others:
                return runnable[0]
            return others[rng.randrange(len(others))]
        raise HarnessError("unknown policy " + p)

    def run(self, est_steps=100):
        if self.explicit is None:
            self._setup_policy(est_steps)
        for t in self.tasks:
            t.thread = threading.Thread(target=self._boot, args=(t,), daemon=True)
            t.thread.start()
        while True:
            runnable = [t.idx for t in self.tasks if not t.done]
            if not runnable:
                break
            if len(self.schedule) >= self.step_cap:
                self.overrun = True
                self._teardown()
                break
            idx = self._choose(runnable)
            if self._last is not None and idx != self._last:
                prev = self.tasks[self._last]
                if not prev.done and prev.obs is not None:
                    self.switches_inside += 1
            self.schedule.append(idx)
            self._last = idx
            self._release(self.tasks[idx])
            self.joint.add(tuple(t.obs for t in self.tasks))
        return self

    def _release(self, t):
        self.current = t
        t.sem.release()
        if not self.sched_sem.acquire(timeout=self.wall_guard_s):
            raise HarnessError("task %d did not reach a yield point within %.0fs (hang in code under test or harness)" % (t.idx, self.wall_guard_s))
        self.current = None

    def _teardown(self):
        self.killed = True
        for t in self.tasks:
            if not t.done:
                self._release(t)

    def digest(self):
        h = hashlib.sha256()
        h.update(repr(self.schedule).encode())
        h.update(repr(self.events).encode())
        return h.hexdigest()


class NestKernel(Kernel):
    """All tasks on ONE thread: task j+1 runs to completion inside a yield point of task j - a caller whose
    scanner, id generator or consumer calls back into the library (re-entrancy without threads; state kept per
    thread or per context is shared by all tasks here). nest_at[j] is the number of the yield point of task j at
    which task j+1 is started; a task whose parent ends before that point runs after it. The run is a pure
    function of (spec, nest_at): there is no choice left to a scheduler."""

    def __init__(self, nest_at, step_cap=100000):
        super().__init__(policy="nested", rng=None, schedule=None, step_cap=step_cap)
        self.nest_at = list(nest_at)
        self.next_idx = 0

    def yield_point(self, label):
        t = self.current
        if t is None or threading.current_thread() is not t.thread:
            return
        if self.killed:
            raise SimKilled()
        t.yields += 1
        self.events.append((len(self.schedule), t.idx, label))
        self.schedule.append(t.idx)
        if len(self.schedule) >= self.step_cap:
            self.overrun = True
            self.killed = True
            raise SimKilled()
        if t.cancel_at is not None and t.yields >= t.cancel_at:
            t.cancel_at = None
            raise SimCancelled()
        j = t.idx
        if self.next_idx == j + 1 and j < len(self.nest_at) and j + 1 < len(self.tasks) and t.yields >= self.nest_at[j]:
            self._run_task(self.tasks[j + 1])
            if self.killed:
                raise SimKilled()

    def _run_task(self, t):
        prev = self.current
        if prev is not None and prev.obs is not None:
            self.switches_inside += 1
        self.next_idx = t.idx + 1
        t.thread = threading.current_thread()
        self.current = t
        self.joint.add(tuple(x.obs for x in self.tasks))
        try:
            t.fn(t)
        except SimCancelled:
            t.cancelled = True
            self.events.append((len(self.schedule), t.idx, "cancelled"))
        except SimKilled:
            pass
        except BaseException as e:  # noqa: BLE001 - reported by the caller as a harness error
            t.exc = e
        finally:
            t.done = True
            self.current = prev
            self.joint.add(tuple(x.obs for x in self.tasks))

    def run(self, est_steps=100):
        while self.next_idx < len(self.tasks) and not self.killed:
            self._run_task(self.tasks[self.next_idx])
        return self
