"""Parallel runner: plans, worker subprocesses, merge, minimise, replay files, evidence.

    check.py <prop> quick|thorough        run the registered check
    check.py <prop> --replay <file>       re-execute a replay file in this (fresh) interpreter
    check.py --worker <args.json>         (internal) one worker
"""
from __future__ import annotations

import faulthandler
import hashlib
import json
import os
import random
import subprocess
import sys
import time

VERIF = os.path.dirname(os.path.dirname(os.path.abspath(__file__)))
REPO = os.environ.get("VERIF_REPO", "/repo")
DEFAULT_SEED = 20261003
MASK = (1 << 64) - 1


def splitmix64(*parts):
    x = 0x9E3779B97F4A7C15
    for p in parts:
        if isinstance(p, str):
            p = int.from_bytes(hashlib.sha256(p.encode()).digest()[:8], "big")
        x = (x + (p & MASK) + 0x9E3779B97F4A7C15) & MASK
        z = x
        z = ((z ^ (z >> 30)) * 0xBF58476D1CE4E5B9) & MASK
        z = ((z ^ (z >> 27)) * 0x94D049BB133111EB) & MASK
        x = z ^ (z >> 31)
    return x


def h48(o):
    return int.from_bytes(hashlib.sha256(json.dumps(o, sort_keys=True, default=repr).encode()).digest()[:6], "big")


# ------------------------------------------------------------------------------------ plans
def plans():
    from . import props
    return props.PLANS


# ------------------------------------------------------------------------------------ worker
def worker_main(argpath):
    faulthandler.enable()
    with open(argpath) as f:
        args = json.load(f)
    faulthandler.dump_traceback_later(args.get("wall_s", 3000), exit=True)
    from . import props
    out = props.run_worker(args)
    tmp = args["out"] + ".tmp"
    with open(tmp, "w") as f:
        json.dump(out, f)
    os.replace(tmp, args["out"])
    return 0


def spawn(args, hashseed):
    env = dict(os.environ)
    env["PYTHONHASHSEED"] = str(hashseed)
    env["PYTHONDONTWRITEBYTECODE"] = "1"
    env["PYTHONPATH"] = os.path.join(REPO, "python") + os.pathsep + VERIF
    env["VERIF_REPO"] = REPO
    cwd = None
    variant = args.get("env_variant")
    if variant:
        # the same runs in a differently configured process: locale, default encoding, time zone, working directory
        env.update(ENV_VARIANTS[variant % len(ENV_VARIANTS)][0])
        cwd = ENV_VARIANTS[variant % len(ENV_VARIANTS)][1]
    argpath = args["out"] + ".args"
    with open(argpath, "w") as f:
        json.dump(args, f)
    return subprocess.Popen([sys.executable, os.path.join(VERIF, "check.py"), "--worker", argpath], env=env, cwd=cwd,
                            stdout=subprocess.PIPE, stderr=subprocess.PIPE, text=True)


ENV_VARIANTS = [
    ({}, None),
    ({"LC_ALL": "C", "LANG": "C", "PYTHONUTF8": "0", "TZ": "Pacific/Kiritimati", "PYTHONIOENCODING": "ascii:backslashreplace", "COLUMNS": "40"}, "/"),
    ({"LC_ALL": "C.UTF-8", "LANG": "tr_TR.UTF-8", "PYTHONUTF8": "1", "TZ": "America/St_Johns", "HOME": "/nonexistent"}, "/tmp"),
]


def run_workers(jobs, wall_s):
    """jobs: list of (args, hashseed). Returns list of result dicts (same order)."""
    procs = [(a, spawn(a, hs)) for a, hs in jobs]
    results, errors = [], []
    deadline = time.time() + wall_s + 60
    for a, p in procs:
        try:
            so, se = p.communicate(timeout=max(1, deadline - time.time()))
        except subprocess.TimeoutExpired:
            p.kill()
            so, se = p.communicate()
            errors.append("worker %s: wall timeout\n%s" % (a["name"], se[-2000:]))
            results.append(None)
            continue
        if p.returncode != 0 or not os.path.exists(a["out"]):
            errors.append("worker %s: exit %s\n%s" % (a["name"], p.returncode, (se or so)[-4000:]))
            results.append(None)
            continue
        with open(a["out"]) as f:
            results.append(json.load(f))
    return results, errors


# ------------------------------------------------------------------------------------ main
def main(argv):
    if len(argv) >= 2 and argv[0] == "--worker":
        return worker_main(argv[1])
    from . import props
    if len(argv) >= 3 and argv[1] == "--replay":
        return props.replay(argv[0], argv[2])
    if len(argv) >= 1 and argv[0] == "selftest":
        from . import selftest
        return selftest.main(argv[1:])
    if len(argv) < 2:
        print(__doc__)
        return 2
    prop, tier = argv[0], argv[1]
    seed = int(os.environ.get("VERIF_SEED", DEFAULT_SEED))
    nworkers = int(os.environ.get("VERIF_WORKERS", min(16, os.cpu_count() or 4)))
    try:
        return props.run_check(prop, tier, seed, nworkers)
    except props.Harness as e:
        print("HARNESS-ERROR: %s" % e)
        return 2
