"""C17: the stream as a simulated pipeline - oracle (stream model + shape) and scenarios."""
from __future__ import annotations

import random

from . import engine, seams, shape, workload
from .kernel import POLICIES
from .props import Prop, PROPS, h48
from .runner import splitmix64
from .stream_ops import model_source, readable, rename_first

ALL_OPTS = [[bool(i & 4), bool(i & 2), bool(i & 1)] for i in range(8)]


def opts_from_argv(argv):
    return ["--no-source" not in argv, "--no-ast" not in argv, "--no-pickles" not in argv]


class C17Hook:
    def __init__(self):
        self.stats = {"envelopes_validated": 0, "sources_compared": 0, "unreadable_sources": 0, "abandoned": 0, "cli_runs": 0, "collisions": 0}
        self.combos = set()
        self.stream_ids = {}

    def _shape(self, run, ts, oi, si, envs):
        for ei, ev in enumerate(envs):
            self.stats["envelopes_validated"] += 1
            j = shape.check_json(ev)
            if j:
                run.violation("C17-shape", ts.ti, oi, "$source[%d].envelope[%d]" % (si, ei), "JSON-serialisable envelope", j)
                continue
            pr = shape.validate(ev)
            if pr:
                run.violation("C17-shape", ts.ti, oi, "$source[%d].envelope[%d]%s" % (si, ei, pr[0][0][1:]), "Cucumber Messages shape", "%s: %s" % pr[0],
                              {"shape_problems": ["%s: %s" % x for x in pr[:5]]})

    def after_op(self, run, ts, oi, op, rec):
        if op["op"] == "stream":
            self.check_stream(run, ts, oi, op, rec)
        elif op["op"] == "cli":
            self.check_cli(run, ts, oi, op, rec)

    def check_ids(self, run, ts, oi, op, rec):
        """ids of one stream's whole history are pairwise distinct (evaluated as the history grows)."""
        for si, envs in enumerate(rec["snap"]):
            sidx = rec["sources"][si].get("sidx") if si < len(rec["sources"]) else None
            seen = self.stream_ids.setdefault((ts.ti, sidx if sidx is not None else op["s"]), {})
            for ev in envs:
                for i in engine.collect_ids(ev, ("id",)):
                    if i in seen:
                        run.violation("C17-ids", ts.ti, oi, "$source[%d]" % si, "id %r unique within the stream" % i, "also emitted in op %d source %d" % seen[i])
                    else:
                        seen[i] = (oi, si)

    def check_stream(self, run, ts, oi, op, rec):
        self.check_ids(run, ts, oi, op, rec)
        fs = seams.cur_fs()
        cons = (op.get("consumer") or {"k": "drain"})
        if len([s for s in rec["sources"] if s.get("sidx") is None]) != len(op["paths"]) and not rec.get("abandoned"):
            run.violation("C17-order", ts.ti, oi, "$sources", len(op["paths"]), len(rec["sources"]))
        for si, s in enumerate(rec["sources"]):
            opts = ts.cur_opts[s["sidx"] if s.get("sidx") is not None else op["s"]]
            mem = s.get("mem")
            text, why = (mem["text"], "ok") if mem is not None else readable(fs, s["path"])
            uri = mem["uri"] if mem is not None else s["path"]
            if s["status"] == "missing":
                run.violation("C17-order", ts.ti, oi, "$source[%d]" % si, "an event for path %r" % s["path"], "source iterator ended early")
                continue
            if text is None:
                self.stats["unreadable_sources"] += 1
                if s["status"] != "unreadable":
                    run.violation("C17-unreadable", ts.ti, oi, "$source[%d]" % si, "OSError/UnicodeError for unreadable path (%s)" % why, [s["status"], s.get("error"), s["norm"][:1]])
                continue
            if s["status"] in ("unreadable", "foreign-source"):
                run.violation("C17-foreign", ts.ti, oi, "$source[%d].read" % si, "source event for readable path", s.get("error"))
                continue
            self.stats["sources_compared"] += 1
            if s["data"] != text:
                run.violation("C17-model", ts.ti, oi, "$source[%d].data" % si, text, s["data"])
            exp, _nd, accepted = model_source(text, uri, opts, 0, mem["mediaType"] if mem is not None else "text/x.cucumber.gherkin+plain")
            act = s["norm"]
            if s["status"] == "foreign":
                run.violation("C17-foreign", ts.ti, oi, "$source[%d].enum" % si, "envelopes only", s.get("error"))
                exp = exp[:len(act)]
            elif s["status"] == "abandoned":
                self.stats["abandoned"] += 1
                exp = exp[:len(act)]
            if any("__foreign__" in e for e in exp):
                exp = [e for e in exp if "__foreign__" not in e][:len(act)]
            if rec.get("zip"):
                exp = rename_first(exp)  # interleaved generators of one stream: ids compared up to per-source renaming
            d = engine.first_diff(exp, act, "$source[%d].envelopes" % si)
            if d and not accepted and ts.cur_first.get(s["sidx"] if s.get("sidx") is not None else op["s"]):
                # the caller set stream.parser.stop_at_first_error: a rejected source is reported either by its first
                # error alone (the flag is honoured) or by all its errors (an implementation that does not parse with
                # that parser object) - never by anything else, in particular never by nothing at all
                self.stats["first_error_mode_sources"] = self.stats.get("first_error_mode_sources", 0) + 1
                exp1, _nd1, acc1 = model_source(text, uri, opts, 0, mem["mediaType"] if mem is not None else "text/x.cucumber.gherkin+plain", True)
                if acc1:
                    # "rejected" is what the parser says in its default mode; the flag only limits how many errors are reported
                    run.violation("C17-model", ts.ti, oi, "$source[%d].accepted_in_stop_at_first_error_mode" % si,
                                  "a source the parser rejects stays rejected when its stop_at_first_error flag is set", act[:2])
                    exp1 = exp
                if s["status"] in ("foreign", "abandoned"):
                    exp1 = exp1[:len(act)]
                if rec.get("zip"):
                    exp1 = rename_first(exp1)
                d1 = engine.first_diff(exp1, act, "$source[%d].envelopes" % si)
                if d1:
                    exp = {"all errors": exp, "or the first error alone": exp1}
                else:
                    d = None
            if d:
                run.violation("C17-model", ts.ti, oi, d, exp, act)
            self._shape(run, ts, oi, si, s["snap"])
            # independent of what the parser says: a source is EITHER accepted (source?, gherkinDocument?, pickle*) OR rejected (parseError+)
            kinds = "".join({"source": "s", "gherkinDocument": "d", "pickle": "p", "parseError": "e"}.get(next(iter(e), "?") if isinstance(e, dict) else "?", "?") for e in s["snap"])
            import re as _re
            if not _re.fullmatch(r"s?d?p*|e+", kinds):
                run.violation("C17-order", ts.ti, oi, "$source[%d].kinds" % si, "source? gherkinDocument? pickle* | parseError+", kinds)
            # "one parseError envelope per error": the same error is not reported twice for one source
            errs = [engine.canon(e) for e in s["snap"] if isinstance(e, dict) and "parseError" in e]
            if len(set(errs)) != len(errs):
                dup = next(x for x in errs if errs.count(x) > 1)
                run.violation("C17-order", ts.ti, oi, "$source[%d].duplicate_parseError" % si, "pairwise distinct parseError envelopes", dup)
            self.combos.add(h48([text, opts, cons.get("k"), oi > 0 or si > 0]))
            gold = (run.spec.get("golden") or {}).get(str(oi)) if si == 0 and s["status"] == "ok" else None
            if gold is not None:
                self.stats["golden_comparisons"] = self.stats.get("golden_comparisons", 0) + 1
                d = engine.first_diff(gold, s["snap"], "$golden.envelopes")
                if d:
                    run.violation("C17-golden", ts.ti, oi, d, gold, s["snap"])

    def check_cli(self, run, ts, oi, op, rec):
        self.stats["cli_runs"] += 1
        fs = seams.cur_fs()
        argv = op["argv"]
        opts = opts_from_argv(argv)
        paths = [a for a in argv if not a.startswith("--")]
        if rec.get("bad_line"):
            run.violation("C17-shape", ts.ti, oi, "$stdout", "one JSON document per line", rec["bad_line"])
            return
        exp, base = [], 0
        for p in paths:
            text, why = readable(fs, p)
            if text is None:
                break
            e, nd, _acc = model_source(text, p, opts, base)
            exp.extend(x for x in e if "__foreign__" not in x)
            base += nd
            self.combos.add(h48([text, opts, "cli", base > 0]))
        if rec.get("error"):
            run.violation("C17-foreign", ts.ti, oi, "$cli", "exit without exception", rec["error"])
            exp = exp[:len(rec["norm"])]
        d = engine.first_diff(exp, rec["norm"], "$stdout")
        if d:
            run.violation("C17-model", ts.ti, oi, d, exp, rec["norm"])
        self.stats["sources_compared"] += len(paths)
        self._shape(run, ts, oi, 0, rec["snap"])

    def at_end(self, run):
        fs = seams.cur_fs()
        # KF-1 is specifically: the WHOLE text of a source names an existing path. Anything else the path-or-string
        # test finds (a stripped or otherwise altered text) is not that finding.
        texts = set()
        for b in fs.files.values():
            try:
                texts.add(b.decode("utf-8"))
            except UnicodeDecodeError:
                pass
        collided = [p for p in fs.exists_true if p in texts]
        if collided:
            self.stats["collisions"] += 1
            for v in run.violations:
                v["fault"] = "path_collision"
                v["collided"] = collided[:3]


# ----------------------------------------------------------------------------- scenarios
EXTRA_DOCS = [
    # resource limits: a scenario with more steps than the interpreter's recursion limit, all of them conjunctions
    ("extra/deep_conjunctions", "Feature: deep\n  Background:\n    Given start\n  Scenario: s\n" + "    And more\n" * 1100 + "    But last\n"),
]


def _docs_for_enum():
    return list(workload.pool()) + list(workload.corpus()) + EXTRA_DOCS


def _golden(name):
    """Reference envelopes of the acceptance corpus (the project's own contract, compared by its Makefile):
    {option-set index: expected envelopes of a fresh stream over ../testdata/<name>.feature}."""
    import json
    import os
    base = os.path.join(REPO_PATH(), "testdata", name + ".feature")
    out = {}

    def load(kind):
        fn = "%s.%s.ndjson" % (base, kind)
        if not os.path.exists(fn):
            return None
        with open(fn, encoding="utf-8") as f:
            return [json.loads(x) for x in f if x.strip()]

    if name.startswith("good/"):
        for oi, kind in ((2, "ast"), (1, "pickles"), (4, "source")):  # ALL_OPTS index: [s,a,p] bits 4,2,1
            g = load(kind)
            if g is not None:
                out[str(oi)] = g
    else:
        g = load("errors")
        if g is not None:
            out["3"] = g  # --no-source
    return out


def enum_spec(index):
    docs = _docs_for_enum()
    di, variant = index // 2, index % 2
    name, text = docs[di]
    nname, ntext = docs[(di + 1) % len(docs)]
    if variant == 1:
        text = text.replace("\r\n", "\n").replace("\n", "\r\n")
    p, q = "/simfs/feat/%s.feature" % name.replace("/", "_"), "/simfs/feat/next_%s.feature" % nname.replace("/", "_")
    golden = None
    if variant == 0 and (name.startswith("good/") or name.startswith("bad/")):
        p = "../testdata/%s.feature" % name  # the uri spelling of the reference files
        golden = _golden(name)
    ops = [{"op": "stream", "s": i, "paths": [p]} for i in range(8)]
    ops.append({"op": "stream", "s": 7, "paths": [q, p, p]})
    ops.append({"op": "cli", "argv": [p, q]})
    ops.append({"op": "cli", "argv": ["--no-source", "--no-pickles", q, p]})
    return {"scenario": "enum", "prop": "C17", "labels": [name, "crlf" if variant else "as-is"], "oracles": ["stable", "progress", "offset"], "golden": golden or {},
            "cfg": {"flavour": "inc", "chunk_max": [0, 3][variant], "fs_seed": index, "salt": 1}, "gens": 0,
            "fs": {"files": {p: text, q: ntext}}, "tasks": [{"streams": [{"o": o} for o in ALL_OPTS], "ops": ops}]}


def n_enum():
    return 2 * len(_docs_for_enum())


def _mk_fs(rng, nfiles, tname):
    files, binfiles, faults, labels = {}, {}, {}, []
    paths = []
    for i in range(nfiles):
        label, text = workload.pick_doc(rng, "en", p_pool=0.4, p_corpus=0.15, p_damage=0.35)
        if text.count("\n") > 60:
            text = workload.truncate_at(text, rng.randint(5, 60))
        text = workload.restyle(rng, text)
        if rng.random() < 0.04:
            text, big = workload.enlarge(rng, text)
            label += "+big%d" % big
        if rng.random() < 0.05:
            text += rng.choice(["\U0001d4b3 non-BMP \U0001f389", "\u2028line sep", "tab\there", "\x0bvt", "nul\x00byte", "\x85nel", "\x0cff"])
        p = "/simfs/%s/f%d.feature" % (tname, i)
        if rng.random() < 0.08:  # a file whose name does not end in .feature (query string, fragment, upper case, other suffix, none)
            p = "/simfs/%s/f%d%s" % (tname, i, rng.choice([".feature?rev=2", ".feature#L3", ".FEATURE", ".txt", "", ".feature.md", ".md", " with space.feature", "-\u00fcn\u00ef.feature"]))
        elif rng.random() < 0.06:  # a file NAME with glob metacharacters, next to a file the pattern would match
            p = "/simfs/%s/f[%d].feature" % (tname, i) if rng.random() < 0.5 else "/simfs/%s/f?%d*.feature" % (tname, i)
        if rng.random() < 0.02:
            text += "step with NUL \x00 inside\n"
        r = rng.random()
        if r < 0.04:
            b = bytearray(text.encode("utf-8") or b"x")
            b[rng.randrange(len(b))] = rng.choice([0xFF, 0xC0, 0x80, 0xFE])
            try:
                bytes(b).decode("utf-8")
                files[p] = bytes(b).decode("utf-8")
            except UnicodeDecodeError:
                binfiles[p] = bytes(b).hex()
                label += "+bad_utf8"
        else:
            files[p] = text
        if r > 0.94:
            faults[p] = rng.choice(["ENOENT", "EACCES", "EISDIR", ["EIO", rng.randint(0, max(0, len(text.encode("utf-8")) - 1))]])
            label += "+" + str(faults[p])
        paths.append(p)
        labels.append(label)
    if rng.random() < 0.05:
        paths.append("/simfs/%s/does-not-exist.feature" % tname)
        labels.append("missing")
    return files, binfiles, faults, paths, labels


def _stream_ops(rng, paths, nstreams, nops, texts=None):
    ops = []
    for _ in range(nops):
        k = rng.randint(1, min(6, max(1, len(paths) + 1)))
        chosen = [paths[rng.randrange(len(paths))] for _ in range(k)]
        if rng.random() < 0.15:  # the uri is the path AS GIVEN, whatever its spelling
            i = rng.randrange(len(chosen))
            head, _, tail = chosen[i].rpartition("/")
            chosen[i] = head + rng.choice(["//", "/./"]) + tail
        r = rng.random()
        cons = {"k": "drain"} if r < 0.62 else {"k": "take", "n": rng.randint(0, 6), "close": rng.random() < 0.5, "throw": rng.random() < 0.2} if r < 0.9 else \
            {"k": "zip", "order": [rng.randrange(6) for _ in range(rng.randint(0, 40))]}
        op = {"op": "stream", "s": rng.randrange(nstreams), "paths": chosen, "consumer": cons}
        if rng.random() < 0.1:
            op["reenum"] = True
        if nstreams > 1 and cons["k"] == "drain" and rng.random() < 0.25:
            op["also"] = (op["s"] + 1) % nstreams  # every event object goes to a second stream as well
        if texts and cons["k"] != "zip" and rng.random() < 0.12:
            # a source event built by the caller in memory: the uri need not be a file at all
            i = rng.randrange(len(chosen))
            t = texts.get(chosen[i].replace("//", "/").replace("/./", "/"))
            if t is not None:
                op["events"] = {str(i): {"uri": rng.choice([chosen[i], "memory:doc%d" % i, "features/with space/\u00fcn\u00ef.feature"]), "text": t,
                                         "mediaType": rng.choice(["text/x.cucumber.gherkin+plain", "text/x.cucumber.gherkin+plain", "text/x.cucumber.gherkin+markdown"])}}
        ops.append(op)
    return ops


def gen_series(rng):
    """One stream over k same-shape files, consumer keeps nothing (each envelope is dropped after it was checked)."""
    k = rng.randint(3, 8)
    if rng.random() < 0.08:
        k = rng.randint(40, 160)  # a long-lived stream: slow leaks need many sources
    series = workload.template_series(rng, k)
    files = {"/simfs/ser/f%d.feature" % i: t for i, (_lb, t) in enumerate(series)}
    opts = ALL_OPTS[rng.randrange(8)] if rng.random() < 0.3 else [True, True, True]
    ops = [{"op": "stream", "s": 0, "paths": list(files), "consumer": {"k": "drain"}}]
    if rng.random() < 0.5:
        ops.append({"op": "stream", "s": 0, "paths": list(files)[: rng.randint(1, k)], "consumer": {"k": "drain"}})
    return {"scenario": "hist", "prop": "C17", "labels": [lb for lb, _ in series], "oracles": ["stable", "progress", "offset"],
            "cfg": {"flavour": "inc", "salt": 1, "chunk_max": rng.choice([0, 3]), "fs_seed": rng.getrandbits(30), "drop": True},
            "gens": 0, "fs": {"files": files}, "tasks": [{"streams": [{"o": opts}], "ops": ops}], "stream_like": True}


def gen_hist(rng):
    if rng.random() < 0.1:
        return gen_series(rng)
    files, binfiles, faults, paths, labels = _mk_fs(rng, rng.randint(1, 6), "t0")
    nstreams = rng.randint(1, 3)
    streams = [{"o": ALL_OPTS[rng.randrange(8)] if rng.random() < 0.6 else [True, True, True]} for _ in range(nstreams)]
    ops = _stream_ops(rng, paths, nstreams, rng.randint(1, 4), files)
    if len(ops) > 1 and rng.random() < 0.35:
        # the file behind a uri changes between two reads of the same uri
        used = [p for op in ops for p in op["paths"] if p in files and p not in faults]
        if used:
            p = used[rng.randrange(len(used))]
            label, text = workload.pick_doc(rng, "en", p_pool=0.5, p_corpus=0.1, p_damage=0.3)
            if text.count("\n") > 60:
                text = workload.truncate_at(text, rng.randint(5, 60))
            at = rng.randint(1, len(ops) - 1)
            ops.insert(at, {"op": "write", "path": p, "text": text})
            ops.insert(at + 1, {"op": "stream", "s": ops[at - 1]["s"], "paths": [p], "consumer": {"k": "drain"}})
            labels.append("rewrite:" + label)
    if rng.random() < 0.12:
        ops.insert(rng.randrange(len(ops)), {"op": "setmode", "s": rng.randrange(nstreams), "first": True})
        if rng.random() < 0.3:
            ops.insert(rng.randrange(len(ops) + 1), {"op": "setmode", "s": ops[0].get("s", 0) if ops[0]["op"] == "setmode" else rng.randrange(nstreams), "first": rng.random() < 0.5})
        labels.append("setmode")
    if len(ops) > 1 and rng.random() < 0.15:
        at = rng.randint(1, len(ops) - 1)
        ops.insert(at, {"op": "setopts", "s": rng.randrange(nstreams), "o": ALL_OPTS[rng.randrange(8)], "how": rng.choice(["mutate", "replace"])})
    if rng.random() < 0.2:
        good = [p for p in paths if p in files and p not in faults]
        if good:
            flags = [f for f in ("--no-source", "--no-ast", "--no-pickles") if rng.random() < 0.3]
            ops.insert(rng.randrange(len(ops) + 1), {"op": "cli", "argv": flags + [good[rng.randrange(len(good))] for _ in range(rng.randint(1, 3))]})
    spec = {"scenario": "hist", "prop": "C17", "labels": labels, "oracles": ["stable", "progress", "offset"],
            "cfg": {"flavour": rng.choice(["inc", "inc", "inc", "opaque", "weird"]), "salt": rng.getrandbits(32), "chunk_max": rng.choice([0, 1, 2, 3, 7, 64, 4096]),
                    "fs_seed": rng.getrandbits(30), "locale": rng.choice(["utf-8", "cp1252", "ascii"])},
            "gens": 0, "fs": {"files": files, "binfiles": binfiles, "faults": faults}, "tasks": [{"streams": streams, "ops": ops}]}
    if rng.random() < 0.1:
        spec["cfg"]["migrate"] = rng.choice(["alt", "all"])  # the history moves between threads (strictly sequential)
    if rng.random() < 0.03:
        # path collision: the file system holds an entry whose NAME is the whole text of a source
        kind = rng.random()
        victim = "/simfs/t0/collide.feature"
        if kind < 0.4:
            text = rng.choice([".", "..", "/"])
        else:
            text = rng.choice(["Feature: x", "notes.txt", "/simfs/t0/f0.feature"])
            if text not in files:
                files[text] = "Feature: content of the colliding file\n  Scenario: s\n    Given from the other file\n"
                spec["keep_files"] = [text]
        files[victim] = text
        ops.append({"op": "stream", "s": 0, "paths": [victim]})
        spec["faults"] = [{"kind": "path_collision", "text": text}]
    elif rng.random() < 0.03:
        # NEAR collision: the text is a path plus a line terminator or blanks - that is a text, not a path
        name = rng.choice(["notes.txt", "/simfs/t0/f0.feature", "."])
        if name not in files and name != ".":
            files[name] = "Feature: content of the other file\n  Scenario: s\n    Given from the other file\n"
            spec["keep_files"] = [name]
        files["/simfs/t0/near.feature"] = rng.choice(["%s\n", " %s", "%s  ", "%s\r\n", "\t%s\n"]) % name
        ops.append({"op": "stream", "s": 0, "paths": ["/simfs/t0/near.feature"]})
        spec["faults"] = [{"kind": "near_path_collision", "text": name}]
    return spec


def gen_inter(rng):
    ntasks = rng.choice([2, 2, 3])
    tasks, labels, files, binfiles, faults = [], [], {}, {}, {}
    for ti in range(ntasks):
        f, b, fl, paths, lb = _mk_fs(rng, rng.randint(1, 3), "t%d" % ti)
        files.update(f)
        binfiles.update(b)
        faults.update(fl)
        nstreams = rng.randint(1, 2)
        tasks.append({"streams": [{"o": ALL_OPTS[rng.randrange(8)] if rng.random() < 0.5 else [True, True, True]} for _ in range(nstreams)],
                      "ops": _stream_ops(rng, paths, nstreams, rng.randint(1, 2))})
        labels.append(lb)
    spec = {"scenario": "inter", "prop": "C17", "labels": labels, "oracles": ["stable", "progress", "offset"], "force_kernel": True,
            "cfg": {"flavour": rng.choice(["inc", "opaque", "weird"]), "salt": rng.getrandbits(32), "chunk_max": rng.choice([0, 1, 3, 64]),
                    "fs_seed": rng.getrandbits(30), "policy": POLICIES[rng.randrange(len(POLICIES))], "sched_seed": rng.getrandbits(32)},
            "gens": 0, "fs": {"files": files, "binfiles": binfiles, "faults": faults}, "tasks": tasks}
    if rng.random() < 0.15:
        spec["cfg"]["nest"] = [rng.getrandbits(16) for _ in range(ntasks - 1)]  # one thread, each consumer inside a gap of its predecessor
        spec["cfg"]["policy"] = "nested"
    return spec


class C17(Prop):
    id = "C17"
    scen_order = ["enum", "hist", "inter"]
    counts = {"quick": {"enum": "all", "hist": 6000, "inter": 1500}, "thorough": {"enum": "all", "hist": 300000, "inter": 60000}}

    def count(self, scen, tier):
        c = self.counts[tier][scen]
        from .props import scaled
        return n_enum() if c == "all" else scaled(c)

    def spec(self, scen, index, seed):
        if scen == "enum":
            return enum_spec(index)
        rng = random.Random(splitmix64(seed, "C17/" + scen, index))
        return gen_hist(rng) if scen == "hist" else gen_inter(rng)

    def hooks(self, spec):
        return [C17Hook()]

    def account(self, acc, spec, out):
        hook = out["_run"].hooks[0]
        acc["evaluations"] += hook.stats["envelopes_validated"] + hook.stats["sources_compared"]
        acc["nontrivial"].update(hook.combos)
        ex = acc["extra"]
        for k, v in hook.stats.items():
            ex[k] = ex.get(k, 0) + v
        cons = ex.setdefault("consumers", {})
        for t in spec["tasks"]:
            for op in t["ops"]:
                if op["op"] == "cli":
                    k = "cli"
                else:
                    c = op.get("consumer") or {"k": "drain"}
                    k = c["k"] + ("_throw" if c.get("throw") else "_close" if c.get("close") else "_drop" if c["k"] == "take" else "_interleaved_generators_of_one_stream" if c["k"] == "zip" else "")
                cons[k] = cons.get(k, 0) + 1
        if spec.get("faults"):
            for f in spec["faults"]:
                acc["faults"][f["kind"]] = acc["faults"].get(f["kind"], 0) + 1
        nbad = len((spec.get("fs") or {}).get("binfiles") or {})
        if nbad:
            acc["faults"]["bad_utf8_files"] = acc["faults"].get("bad_utf8_files", 0) + nbad
        if spec["scenario"] == "inter":
            acc["schedules"].add(h48(out["schedule"]))

    def annotate(self, report):
        """KF-1 gate: the violation must vanish when the one path collision is removed."""
        vs = report["violations"]
        if not vs or not all(v.get("fault") == "path_collision" for v in vs):
            return
        import copy
        from .props import run_one
        s = copy.deepcopy(report["spec"])
        s.setdefault("cfg", {})["no_collision"] = True
        out = run_one(self, s, report["schedule"])
        report["passes_without_fault"] = not out["violations"]

    def finish(self, merged, tier):
        n, problems = shape.selfcheck(REPO_PATH())
        cov = {"option_sets_done": 8, "enum_documents": len(_docs_for_enum()), "enum_exhaustive_over_pool_and_corpus": merged["runs"].get("enum", 0) == n_enum(),
               "shape_selfcheck_messages": n, "schedules_distinct": len(merged["schedules"])}
        rule = ("evaluations = envelopes validated against the Cucumber Messages shape + sources whose envelope sequence was compared with the stream reference model. "
                "distinct_nontrivial = distinct (source text, option set, consumer kind, first-vs-later position in the stream's history). Enumerated part: every pool and "
                "acceptance-corpus document x all 8 option sets x {as-is, CRLF + short reads} + two CLI invocations; sampled part: seeded multi-source histories with "
                "open/read faults, bad UTF-8, abandoning consumers, path collisions, and interleaved consumers on different GherkinEvents instances.")
        return cov, rule


def REPO_PATH():
    from .runner import REPO
    return REPO


PROPS["C17"] = C17()
