"""./check selftest [K] : proves the simulator's determinism on a sample.

1. kernel alone, dummy tasks (no gherkin code): same seed => same schedule, every policy;
2. for each claimed property, the first K run indices of every sampled scenario are executed in fresh
   interpreters at worker counts 1, 4 and 16 under three different PYTHONHASHSEEDs; spec/schedule digests
   and result digests must be identical everywhere.
Exit 0 = deterministic on the sample, 2 = divergence (harness error)."""
from __future__ import annotations

import os
import random
import shutil
import sys
import time

from .kernel import Kernel, POLICIES
from .runner import VERIF, run_workers, splitmix64


def kernel_selftest(n=300):
    bad = 0
    for i in range(n):
        digs = []
        for _rep in range(2):
            rng = random.Random(i)
            k = Kernel(policy=POLICIES[i % len(POLICIES)], rng=random.Random(i * 7 + 1), step_cap=10000)
            lens = [rng.randint(1, 30) for _ in range(rng.randint(1, 5))]

            def mk(L):
                def body(_t):
                    for j in range(L):
                        k.yield_point("y%d" % j)
                return body
            for L in lens:
                k.spawn(mk(L))
            k.run(est_steps=sum(lens))
            digs.append(k.digest())
        # explicit replay of the recorded schedule
        k2 = Kernel(schedule=k.schedule, step_cap=10000)
        for L in lens:
            def mk2(L):
                def body(_t):
                    for j in range(L):
                        k2.yield_point("y%d" % j)
                return body
            k2.spawn(mk2(L))
        k2.run()
        if digs[0] != digs[1] or k2.digest() != digs[0]:
            bad += 1
    return n, bad


def main(argv):
    K = int(argv[0]) if argv else 120
    t0 = time.time()
    n, bad = kernel_selftest()
    print("kernel: %d seeded runs x 2 + explicit replay, %d divergences" % (n, bad))
    rc = 0 if not bad else 2
    from . import props
    seed = int(os.environ.get("VERIF_SEED", 20261003))
    wd = os.path.join(VERIF, ".work", "selftest-%d" % os.getpid())
    shutil.rmtree(wd, ignore_errors=True)
    os.makedirs(wd)
    try:
        for pid in ("C11", "C15", "C17"):
            prop = props.get_prop(pid)
            work = [(s, K) for s in prop.scen_order if s not in ("pairs", "triples", "enum", "canon", "sweep", "dialects")]
            jobs, groups = [], []
            for gi, nw in enumerate((1, 4, 16)):
                for w in range(nw):
                    name = "%s-n%d-w%d" % (pid, nw, w)
                    jobs.append(({"job": "runs", "name": name, "prop": pid, "tier": "quick", "seed": seed, "w": w, "n": nw, "work": work, "det_sample": K,
                                  "out": os.path.join(wd, name + ".json"), "wall_s": 1200}, 1 + splitmix64(seed, "st", gi, w) % 4000000000 if gi else 0))
                    groups.append(gi)
            results, errors = run_workers(jobs, 1200)
            if errors:
                print("HARNESS-ERROR: " + "; ".join(errors)[:2000])
                return 2
            maps = [{}, {}, {}]
            for gi, r in zip(groups, results):
                for scen, dg in r["digests"].items():
                    for k, v in dg.items():
                        maps[gi][(scen, k)] = v
            keys = set(maps[0]) | set(maps[1]) | set(maps[2])
            div = [k for k in keys if not (maps[0].get(k) == maps[1].get(k) == maps[2].get(k))]
            print("%s: %d runs compared across worker counts 1/4/16 and 3 hash seeds, %d divergences" % (pid, len(keys), len(div)))
            for k in sorted(div)[:5]:
                print("   ", k, [m.get(k) and m[k][0][:10] for m in maps])
            if div or not keys:
                rc = 2
    finally:
        shutil.rmtree(wd, ignore_errors=True)
    print("selftest %s in %.1fs" % ("ok" if rc == 0 else "FAILED", time.time() - t0))
    return rc
