"""C15 scenarios: reuse histories (enumerated pairs/triples + sampled) and interleaved parses."""
from __future__ import annotations

from . import workload
from .kernel import POLICIES

ORACLES = ["alone", "reads", "pure", "stable", "progress", "offset"]

# instance configurations for the enumerated part
CONFIGS = [
    {"name": "ast-shared-en-scanner", "parser": {"b": "ast", "g": 0}, "matcher": {"c": "tm", "d": "en"}, "src": "scanner", "flavour": "inc"},
    {"name": "default-parser-no-matcher-str", "parser": {"b": "astd"}, "matcher": None, "src": "str", "flavour": "inc"},
    {"name": "token-formatter-en", "parser": {"b": "tok"}, "matcher": {"c": "tm", "d": "en"}, "src": "scanner", "flavour": "inc"},
    {"name": "ast-fr-default", "parser": {"b": "ast", "g": 0}, "matcher": {"c": "tm", "d": "fr"}, "src": "scanner", "flavour": "inc"},
    {"name": "ast-ja-default-opaque-ids", "parser": {"b": "ast", "g": 0}, "matcher": {"c": "tm", "d": "ja"}, "src": "str", "flavour": "opaque"},
    {"name": "ast-en-path-shortreads", "parser": {"b": "ast", "g": 0}, "matcher": {"c": "tm", "d": "en"}, "src": "path", "flavour": "inc"},
    # two default-constructed parsers (private generators, so AST ids of different documents coincide) feeding ONE long-lived compiler
    # the history migrates between threads: every operation runs on a thread of its own (state kept per thread is lost or stale)
    {"name": "ast-shared-en-scanner-thread-per-operation", "parser": {"b": "ast", "g": 0}, "matcher": {"c": "tm", "d": "en"}, "src": "scanner", "flavour": "inc", "migrate": "all"},
    {"name": "two-default-parsers-one-compiler", "parser": {"b": "astd"}, "matcher": {"c": "tm", "d": "en"}, "src": "scanner", "flavour": "inc", "alt": True},
]
MODES = [(False, False), (True, True), (True, False), (False, True)]

MATCHERS = [None, {"c": "tm", "d": "en"}, {"c": "tm", "d": "en"}, {"c": "tm", "d": "fr"}, {"c": "tm", "d": "ja"}, {"c": "tm", "d": "em"}, {"c": "tm", "d": "no"}]
MD = {"c": "md", "d": "en"}


def _parse_op(cfg, text, first, fs_files, tag):
    op = {"op": "parse", "p": 0, "m": 0 if cfg["matcher"] is not None else None, "text": text, "first": first, "src": cfg["src"]}
    if cfg["src"] == "path":
        path = "/simfs/%s.feature" % tag
        fs_files[path] = text
        op["path"] = path
    return op


def chain_spec(ci, mi, docs, labels):
    """Enumerated history: parse docs[0..n-1] in order on the same instances, then compile
    the last and the first result (delayed compile) when the builder makes documents."""
    cfg = CONFIGS[ci]
    files = {}
    n = len(docs)
    firsts = [MODES[mi][0]] * (n - 1) + [MODES[mi][1]]
    ops = [_parse_op(cfg, d, firsts[i], files, "d%d" % i) for i, d in enumerate(docs)]
    task = {"parsers": [cfg["parser"]], "matchers": [cfg["matcher"]] if cfg["matcher"] is not None else [], "compilers": [], "ops": ops}
    if cfg.get("alt"):
        task["parsers"] = [cfg["parser"], dict(cfg["parser"])]
        for i, op in enumerate(ops):
            op["p"] = i % 2
    if cfg["parser"]["b"] != "tok":
        task["compilers"] = [{"g": 0 if cfg["parser"]["b"] == "ast" else None}]
        if cfg.get("alt"):
            for i in range(n):
                ops.append({"op": "compile", "c": 0, "of": i, "uri": "d%d.feature" % i, "attach": "copy"})
        ops.append({"op": "compile", "c": 0, "of": n - 1, "uri": "last.feature", "attach": "copy"})
        ops.append({"op": "compile", "c": 0, "of": 0, "uri": "first.feature", "attach": "set"})
        ops.append({"op": "compile", "c": 0, "of": n - 1, "uri": "last.feature", "attach": "json"})
    return {"scenario": "reuse-enum", "prop": "C15", "labels": labels, "config": cfg["name"], "oracles": ORACLES,
            "cfg": {"flavour": cfg["flavour"], "salt": 0x5EED, "chunk_max": 3 if cfg["src"] == "path" else 0, "fs_seed": 7, **({"migrate": cfg["migrate"]} if cfg.get("migrate") else {})},
            "gens": 1, "fs": {"files": files}, "tasks": [task]}


def n_pairs():
    p = len(workload.pool())
    return p * p * len(CONFIGS) * len(MODES)


def pair_spec(index):
    p = workload.pool()
    n = len(p)
    mi = index % len(MODES)
    index //= len(MODES)
    ci = index % len(CONFIGS)
    index //= len(CONFIGS)
    b = index % n
    a = index // n
    return chain_spec(ci, mi, [p[a][1], p[b][1]], [p[a][0], p[b][0]])


def n_triples(configs=(0,), modes=(0, 2)):
    p = len(workload.pool())
    return p * p * p * len(configs) * len(modes)


def triple_spec(index, configs=(0,), modes=(0, 2)):
    p = workload.pool()
    n = len(p)
    mi = modes[index % len(modes)]
    index //= len(modes)
    ci = configs[index % len(configs)]
    index //= len(configs)
    c = index % n
    index //= n
    b = index % n
    a = index // n
    return chain_spec(ci, mi, [p[a][1], p[b][1], p[c][1]], [p[a][0], p[b][0], p[c][0]])


def _gen_task(rng, gen_base, ngens, nops, files, tname, small=False):
    nparsers = rng.randint(1, 3)
    parsers = []
    for _ in range(nparsers):
        r = rng.random()
        if r < 0.6:
            parsers.append({"b": "ast", "g": gen_base + rng.randrange(ngens)})
        elif r < 0.8:
            parsers.append({"b": "astd"})
        else:
            parsers.append({"b": "tok"})
    matchers = [MATCHERS[rng.randrange(len(MATCHERS))] for _ in range(rng.randint(1, 3))]
    if rng.random() < 0.06:
        matchers.append(MD)
    compilers = [{"g": gen_base + rng.randrange(ngens)} if rng.random() < 0.7 else {"g": None} for _ in range(rng.randint(1, 2))]
    ops, labels = [], []
    for oi in range(nops):
        docs_ok = [i for i, o in enumerate(ops) if o["op"] == "parse" and parsers[o["p"]]["b"] != "tok"]
        if docs_ok and rng.random() < 0.25:
            ops.append({"op": "compile", "c": rng.randrange(len(compilers)), "of": docs_ok[rng.randrange(len(docs_ok))],
                        "uri": "u%d.feature" % oi, "attach": rng.choice(["set", "set", "set", "copy", "copy", "copy", "copy", "copy", "json", "json"])})
            labels.append("compile")
            continue
        mi = rng.randrange(len(matchers))
        ms = matchers[mi]
        default = ms["d"] if ms else "en"
        if small:
            label, text = workload.pick_doc(rng, default, p_pool=0.7, p_corpus=0.05, p_damage=0.3)
            if text.count("\n") > 40:
                text = workload.truncate_at(text, rng.randint(3, 40))
                label += "+trunc"
        else:
            label, text = workload.pick_doc(rng, default)
        if rng.random() < 0.12:
            k = rng.randint(0, text.count("\n") + 1)
            text = workload.truncate_at(text, k)
            label += "+eof@%d" % k
        src = rng.choice(["str", "scanner", "scanner", "path"])
        op = {"op": "parse", "p": rng.randrange(nparsers), "m": None if ms is None else mi, "text": text, "first": rng.random() < 0.3, "src": src}
        if ms is None:
            matchers[mi] = None
        if src == "path":
            text = workload.restyle(rng, text)
            op["text"] = text
            op["path"] = "/simfs/%s-%d.feature" % (tname, oi)
            files[op["path"]] = text
        ops.append(op)
        labels.append(label)
    # the engine indexes matchers by position, None entries are "let parse() create one"
    return {"parsers": parsers, "matchers": matchers, "compilers": compilers, "ops": ops}, labels


def _cfg(rng):
    return {"genclass": rng.choice(["plain", "plain", "plain", "journal", "duck", "own"]), "flavour": rng.choice(["inc", "inc", "inc", "opaque", "weird"]), "salt": rng.getrandbits(32), "chunk_max": rng.choice([0, 1, 2, 3, 7, 64]),
            "fs_seed": rng.getrandbits(30), "locale": rng.choice(["utf-8", "utf-8", "cp1252", "ascii"])}


def gen_stream_like(rng, prop="C15", oracles=None):
    """One parser + one compiler fed k same-shape documents, every result dropped before the next."""
    k = rng.randint(3, 8)
    if rng.random() < 0.08:
        k = rng.randint(40, 260)  # a long-lived instance: slow leaks (bounded buffers, thresholds, periodic housekeeping) need many documents
    series = workload.template_series(rng, k)
    shared = rng.random() < 0.6
    parsers = [{"b": "ast", "g": 0}] if shared or rng.random() < 0.5 else [{"b": "astd"}]
    compilers = [{"g": 0}] if shared else [{"g": 1 if rng.random() < 0.5 else None}]
    ops = []
    for i, (_lb, text) in enumerate(series):
        ops.append({"op": "parse", "p": 0, "m": None, "text": text, "first": False, "src": rng.choice(["str", "scanner"])})
        ops.append({"op": "compile", "c": 0, "of": len(ops) - 1, "uri": "t%d.feature" % i, "attach": "copy"})
    cfg = _cfg(rng)
    cfg["drop"] = True
    return {"scenario": "reuse", "prop": prop, "labels": [lb for lb, _ in series], "oracles": oracles or ORACLES, "cfg": cfg, "gens": 2,
            "fs": {}, "tasks": [{"parsers": parsers, "matchers": [], "compilers": compilers, "ops": ops}], "stream_like": True}


def gen_tokcli(rng):
    """The token-listing script over several files (one parser + TokenFormatterBuilder reused by the script itself)."""
    files, argv, labels = {}, [], []
    for i in range(rng.randint(2, 5)):
        label, text = workload.pick_doc(rng, "en", p_pool=0.6, p_corpus=0.1, p_damage=0.15)
        if text.count("\n") > 60:
            text = workload.truncate_at(text, rng.randint(5, 60))
        p = "/simfs/tok/f%d.feature" % i
        files[p] = workload.restyle(rng, text).replace("\ufeff", "")
        argv.append(p)
        labels.append(label)
    if rng.random() < 0.5:
        argv.append(argv[0])
    cfg = _cfg(rng)
    return {"scenario": "reuse", "prop": "C15", "labels": labels, "oracles": ORACLES, "cfg": cfg, "gens": 0, "fs": {"files": files},
            "tasks": [{"parsers": [], "matchers": [], "compilers": [], "ops": [{"op": "tokcli", "argv": argv}]}]}


def gen_reuse(rng):
    if rng.random() < 0.12:
        return gen_stream_like(rng)
    if rng.random() < 0.05:
        return gen_tokcli(rng)
    files = {}
    ngens = rng.randint(1, 2)
    task, labels = _gen_task(rng, 0, ngens, rng.randint(2, 12), files, "t0")
    cfg = _cfg(rng)
    cfg["drop"] = rng.random() < 0.3  # a caller that does not keep earlier results (memory, and object identities, are reused)
    if rng.random() < 0.12:
        cfg["migrate"] = rng.choice(["alt", "all"])  # the history moves between threads (every second / every operation on a thread of its own)
    return {"scenario": "reuse", "prop": "C15", "labels": labels, "oracles": ORACLES, "cfg": cfg, "gens": ngens,
            "fs": {"files": files}, "tasks": [task]}


def gen_interleave(rng):
    files = {}
    ntasks = rng.choice([2, 2, 3, 3, 4])
    tasks, labels = [], []
    shared = rng.random() < 0.2  # the callers CHOSE to share one id generator: results still equal "alone" up to the order of draws
    for ti in range(ntasks):
        t, lb = _gen_task(rng, 0 if shared else ti, 1, rng.randint(1, 6 if ntasks < 4 else 3), files, "t%d" % ti, small=True)
        tasks.append(t)
        labels.append(lb)
    cfg = _cfg(rng)
    cfg["policy"] = POLICIES[rng.randrange(len(POLICIES))]
    cfg["sched_seed"] = rng.getrandbits(32)
    cfg["drop"] = rng.random() < 0.2
    spec = {"scenario": "interleave", "prop": "C15", "labels": labels, "oracles": [o for o in ORACLES if not (shared and o == "offset")], "cfg": cfg, "gens": ntasks,
            "shared_generator": shared,
            "fs": {"files": files}, "tasks": tasks, "force_kernel": True}
    if rng.random() < 0.15:
        victim = rng.randrange(ntasks)
        tasks[victim]["cancel_at"] = rng.randint(1, 60)
        spec["faults"] = [{"kind": "cancel", "task": victim, "at": tasks[victim]["cancel_at"]}]
    if rng.random() < 0.15:
        # one thread: each task runs to completion inside a token-read gap of its predecessor (a caller that re-enters the library)
        cfg["nest"] = [rng.getrandbits(16) for _ in range(ntasks - 1)]
        cfg["policy"] = "nested"
    return spec


# ----------------------------------------------------------------------------- systematic schedule sweep
SWEEP_DOCS = [
    ("docstring-open-indent6", "Feature: a\n  Scenario: s\n    Given x\n      \"\"\"\n      Given body\n"),
    ("fr-header", "# language: fr\nFonctionnalit\u00e9: b\n  Sc\u00e9nario: s\n    Soit y\n"),
    ("pending-tags-deep-description", "Feature: c\n      deep description\n  Scenario: s\n    Given z\n  @tag\n"),
    ("ragged-table", "Feature: d\n  Scenario: s\n    Given t\n      | a |\n      | b | c |\n"),
    ("lookahead-comments", "Feature: e\n  # comment\n  @t1\n  # c2\n  Scenario: s\n"),
    ("error-first", "junk\nFeature: f\n  Scenario: s\n    Given w\n"),
]
_sweep = {}


def _sweep_plan():
    """[(a, b, releases_a, releases_b, first schedule index)], total - sizes come from the code's own token counts."""
    if "plan" not in _sweep:
        from math import comb
        from . import engine, seams
        seams.install()
        rel = []
        for _name, text in SWEEP_DOCS:
            r = engine.ALONE.parse(text, {"c": "tm", "d": "en"}, "ast", False, "text")
            rel.append(r["gates"] + 2)  # start yield + one yield per gate (token read), +1 for the final release
        plan, total = [], 0
        for a in range(len(SWEEP_DOCS)):
            for b in range(len(SWEEP_DOCS)):
                plan.append((a, b, rel[a], rel[b], total))
                total += comb(rel[a] + rel[b], rel[a])
        _sweep["plan"], _sweep["total"] = plan, total
    return _sweep["plan"], _sweep["total"]


def n_sweep():
    return _sweep_plan()[1]


def _unrank(k, n0, n1):
    """k-th (lexicographic) sequence with n0 zeros and n1 ones."""
    from math import comb
    out = []
    while n0 or n1:
        if n0 == 0:
            out.append(1)
            n1 -= 1
        elif n1 == 0:
            out.append(0)
            n0 -= 1
        else:
            c = comb(n0 - 1 + n1, n1)  # sequences that start with 0
            if k < c:
                out.append(0)
                n0 -= 1
            else:
                k -= c
                out.append(1)
                n1 -= 1
    return out


def sweep_spec(index):
    import bisect
    plan, total = _sweep_plan()
    starts = [p[4] for p in plan]
    pi = bisect.bisect_right(starts, index) - 1
    a, b, ra, rb, first = plan[pi]
    sched = _unrank(index - first, ra, rb)
    tasks = []
    for ti, d in enumerate((a, b)):
        tasks.append({"parsers": [{"b": "ast", "g": ti}], "matchers": [{"c": "tm", "d": "en"}], "compilers": [],
                      "ops": [{"op": "parse", "p": 0, "m": 0, "text": SWEEP_DOCS[d][1], "first": False, "src": "scanner"}]})
    return {"scenario": "interleave", "sweep": True, "prop": "C15", "labels": [SWEEP_DOCS[a][0], SWEEP_DOCS[b][0]], "oracles": ORACLES,
            "cfg": {"flavour": "inc", "policy": "explicit", "sched_seed": 0}, "gens": 2, "fs": {}, "tasks": tasks, "force_kernel": True,
            "explicit_schedule": sched}


# ----------------------------------------------------------------------------- one thread: B parsed inside a token-read gap of A
_nest = {}


def _nest_plan(full):
    """[(a, b, yield point of A at which B runs)]: all ordered pairs of pool documents x (full: every gap of A | two gaps of A)."""
    key = "full" if full else "two"
    if key not in _nest:
        from . import engine, seams
        seams.install()
        p = workload.pool()
        points = [engine.ALONE.parse(text, {"c": "tm", "d": "en"}, "ast", False, "text")["gates"] + 1 for _name, text in p]  # start + one per gate
        plan = []
        for a in range(len(p)):
            gaps = range(1, points[a] + 1) if full else sorted({max(2, points[a] // 3), max(2, (2 * points[a]) // 3)})
            for g in gaps:
                for b in range(len(p)):
                    plan.append((a, b, g))
        _nest[key] = plan
    return _nest[key]


def n_nested(full=False):
    return len(_nest_plan(full))


def nested_spec(index, full=False):
    a, b, g = _nest_plan(full)[index]
    p = workload.pool()
    tasks = []
    for ti, d in enumerate((a, b)):
        tasks.append({"parsers": [{"b": "ast", "g": ti}], "matchers": [{"c": "tm", "d": "en"}], "compilers": [],
                      "ops": [{"op": "parse", "p": 0, "m": 0, "text": p[d][1], "first": False, "src": "scanner"}]})
    return {"scenario": "interleave", "nested_enum": True, "prop": "C15", "labels": [p[a][0], p[b][0], "gap %d" % g], "oracles": ORACLES,
            "cfg": {"flavour": "inc", "policy": "nested", "sched_seed": 0, "nest": [g], "nest_exact": True}, "gens": 2, "fs": {}, "tasks": tasks, "force_kernel": True}


# ----------------------------------------------------------------------------- all ordered pairs of dialects on one matcher
def n_dialects():
    n = len(workload.dialect_docs())
    return n * n * 2


def dialect_spec(index):
    """History on ONE parser + matcher: a document of dialect A (with header), then one of dialect B.
    variant 0: matcher default 'en', B carries its header; variant 1: matcher default B, B has no header."""
    docs = workload.dialect_docs()
    n = len(docs)
    variant = index % 2
    index //= 2
    b = index % n
    a = index // n
    (na, ta), (nb, tb) = docs[a], docs[b]
    lang_b = nb.split("/", 1)[1]
    if variant == 1:
        tb = tb.split("\n", 1)[1]
    ms = {"c": "tm", "d": "en" if variant == 0 else lang_b}
    ops = [{"op": "parse", "p": 0, "m": 0, "text": ta, "first": False, "src": "scanner"},
           {"op": "parse", "p": 0, "m": 0, "text": tb, "first": False, "src": "scanner"},
           {"op": "compile", "c": 0, "of": 1, "uri": "b.feature", "attach": "copy"}]
    return {"scenario": "reuse-enum", "prop": "C15", "labels": [na, nb, "default-" + ms["d"]], "config": "dialect-pairs-default-" + ("en" if variant == 0 else "B"),
            "oracles": ORACLES, "cfg": {"flavour": "inc", "salt": 1, "chunk_max": 0, "fs_seed": 1}, "gens": 1, "fs": {},
            "tasks": [{"parsers": [{"b": "ast", "g": 0}], "matchers": [ms], "compilers": [{"g": 0}], "ops": ops}]}
