"""Delta-debugging minimiser over a recorded run: tasks -> operations -> faults -> document lines
-> configuration -> context switches.  A candidate is kept only when the same violation class
(oracle id + index-free path of the first differing field) persists.  Every candidate is re-executed
from its explicit operation list / schedule / fault list, never from the seed."""
from __future__ import annotations

import copy
import json
import time

from . import engine


class Budget:
    def __init__(self, runs, secs):
        self.runs, self.deadline, self.used = runs, time.time() + secs, 0

    def ok(self):
        return self.used < self.runs and time.time() < self.deadline


def classes(violations):
    return {v["cls"] for v in violations}


def attempt(prop, spec, schedule, want, budget):
    from . import props
    if not budget.ok():
        return None
    budget.used += 1
    try:
        out = props.run_one(prop, spec, schedule)
    except Exception:  # noqa: BLE001 - a candidate that breaks the harness is simply not kept
        return None
    if classes(out["violations"]) & want:
        return out
    return None


def size(spec):
    return len(json.dumps(spec))


def fix_refs(task, removed):
    """After removing op index `removed`, re-point or drop compile ops that refer to it."""
    ops = []
    for i, op in enumerate(task["ops"]):
        if i == removed:
            continue
        if op["op"] == "compile":
            if op["of"] == removed:
                continue
            if op["of"] > removed:
                op = dict(op, of=op["of"] - 1)
        ops.append(op)
    # compile ops dropped above shift later indices again: recompute conservatively
    return ops


def drop_op(spec, ti, oi):
    s = copy.deepcopy(spec)
    t = s["tasks"][ti]
    victim = t["ops"][oi]
    if victim["op"] == "compile":
        del t["ops"][oi]
        return s
    # removing a parse: drop compiles of it, renumber the others
    keep, mapping = [], {}
    for i, op in enumerate(t["ops"]):
        if i == oi or (op["op"] == "compile" and op["of"] == oi):
            continue
        mapping[i] = len(keep)
        keep.append(op)
    for op in keep:
        if op["op"] == "compile":
            if op["of"] not in mapping:
                return None
            op["of"] = mapping[op["of"]]
    t["ops"] = keep
    return s


def project_schedule(schedule, keep_tasks):
    if schedule is None:
        return None
    m = {old: new for new, old in enumerate(keep_tasks)}
    return [m[x] for x in schedule if x in m]


def minimise(prop, spec, schedule, violations, runs=2000, secs=60):
    want = classes(violations)
    budget = Budget(runs, secs)
    best = (spec, schedule, None)

    def keep(s, sch):
        nonlocal best
        if s is None:
            return False
        out = attempt(prop, s, sch, want, budget)
        if out is not None:
            best = (s, out["schedule"] if out["schedule"] is not None else sch, out)
            return True
        return False

    # confirm reproduction from the explicit record first
    if not keep(spec, schedule):
        return spec, schedule, None, budget.used
    changed = True
    while changed and budget.ok():
        changed = False
        spec, schedule, _ = best
        # 1. drop whole tasks
        if len(spec["tasks"]) > 1:
            for ti in range(len(spec["tasks"]) - 1, -1, -1):
                spec, schedule, _ = best
                if len(spec["tasks"]) <= 1 or ti >= len(spec["tasks"]):
                    continue
                s = copy.deepcopy(spec)
                del s["tasks"][ti]
                keep_t = [i for i in range(len(spec["tasks"])) if i != ti]
                if len(s["tasks"]) == 1:
                    s.pop("force_kernel", None)
                if keep(s, project_schedule(schedule, keep_t) if len(s["tasks"]) > 1 or s.get("force_kernel") else None):
                    changed = True
        # 2. drop operations (from the end)
        spec, schedule, _ = best
        for ti in range(len(spec["tasks"])):
            oi = len(best[0]["tasks"][ti]["ops"]) - 1
            while oi >= 0 and budget.ok():
                spec, schedule, _ = best
                if oi < len(spec["tasks"][ti]["ops"]) and len(spec["tasks"][ti]["ops"]) > 1:
                    if keep(drop_op(spec, ti, oi), schedule):
                        changed = True
                oi -= 1
        # 3. drop faults
        spec, schedule, _ = best
        for ti, t in enumerate(spec["tasks"]):
            if t.get("cancel_at") is not None:
                s = copy.deepcopy(spec)
                s["tasks"][ti].pop("cancel_at")
                s["faults"] = [f for f in s.get("faults", []) if not (f.get("kind") == "cancel" and f.get("task") == ti)]
                if keep(s, schedule):
                    changed = True
        spec, schedule, _ = best
        if (spec.get("fs") or {}).get("faults"):
            for p in list(spec["fs"]["faults"]):
                spec, schedule, _ = best
                s = copy.deepcopy(spec)
                s["fs"]["faults"].pop(p, None)
                if keep(s, schedule):
                    changed = True
        spec, schedule, _ = best
        if spec.get("cfg", {}).get("chunk_max"):
            s = copy.deepcopy(spec)
            s["cfg"]["chunk_max"] = 0
            if keep(s, schedule):
                changed = True
        # 4. document lines (ddmin per parse op / per file)
        for ti in range(len(best[0]["tasks"])):
            for oi in range(len(best[0]["tasks"][ti]["ops"])):
                spec, schedule, _ = best
                op = spec["tasks"][ti]["ops"][oi]
                if op["op"] not in ("parse",) or not budget.ok():
                    continue
                lines = op["text"].split("\n")
                chunk = max(1, len(lines) // 2)
                while chunk >= 1 and budget.ok():
                    i = 0
                    progressed = False
                    while i < len(lines) and budget.ok():
                        cand = lines[:i] + lines[i + chunk:]
                        s = copy.deepcopy(best[0])
                        o2 = s["tasks"][ti]["ops"][oi]
                        o2["text"] = "\n".join(cand)
                        if o2.get("path"):
                            s.setdefault("fs", {}).setdefault("files", {})[o2["path"]] = o2["text"]
                        if keep(s, best[1]):
                            lines = cand
                            progressed = changed = True
                        else:
                            i += chunk
                    if chunk == 1 and not progressed:
                        break
                    chunk = chunk // 2 if chunk > 1 else (1 if progressed else 0)
        # 4b. stream operations: fewer paths / arguments, simpler consumer, then file contents line by line
        for ti in range(len(best[0]["tasks"])):
            for oi in range(len(best[0]["tasks"][ti]["ops"])):
                op = best[0]["tasks"][ti]["ops"][oi]
                key = "paths" if op["op"] == "stream" else "argv" if op["op"] in ("cli", "tokcli") else None
                if key is None:
                    continue
                i = len(op[key]) - 1
                while i >= 0 and budget.ok():
                    cur = best[0]["tasks"][ti]["ops"][oi][key]
                    if len(cur) > 1 and i < len(cur):
                        s2 = copy.deepcopy(best[0])
                        del s2["tasks"][ti]["ops"][oi][key][i]
                        ev = s2["tasks"][ti]["ops"][oi].get("events")
                        if ev:  # hand-built events are keyed by position in the path list
                            s2["tasks"][ti]["ops"][oi]["events"] = {str(int(j) if int(j) < i else int(j) - 1): v for j, v in ev.items() if int(j) != i}
                        if keep(s2, best[1]):
                            changed = True
                    i -= 1
                if op["op"] == "stream" and (op.get("consumer") or {}).get("k") == "take":
                    s2 = copy.deepcopy(best[0])
                    s2["tasks"][ti]["ops"][oi]["consumer"] = {"k": "drain"}
                    if keep(s2, best[1]):
                        changed = True
        for path in list(((best[0].get("fs") or {}).get("files") or {})):
            if not budget.ok() or path not in best[0]["fs"]["files"]:
                continue
            referenced = any(path in (op.get("paths") or ()) or path in (op.get("argv") or ()) or op.get("path") == path and op["op"] == "write"
                             for t in best[0]["tasks"] for op in t["ops"])
            if not referenced or any(op.get("path") == path and op["op"] == "parse" for t in best[0]["tasks"] for op in t["ops"]):
                continue
            lines = best[0]["fs"]["files"][path].split("\n")
            chunk = max(1, len(lines) // 2)
            while chunk >= 1 and budget.ok():
                i, progressed = 0, False
                while i < len(lines) and budget.ok():
                    cand = lines[:i] + lines[i + chunk:]
                    s2 = copy.deepcopy(best[0])
                    s2["fs"]["files"][path] = "\n".join(cand)
                    if keep(s2, best[1]):
                        lines = cand
                        progressed = changed = True
                    else:
                        i += chunk
                if chunk == 1 and not progressed:
                    break
                chunk = chunk // 2 if chunk > 1 else 1
        # 5. simplify configuration
        spec, schedule, _ = best
        for key, val in (("flavour", "inc"), ("locale", "utf-8")):
            if spec.get("cfg", {}).get(key, val) != val:
                s = copy.deepcopy(best[0])
                s["cfg"][key] = val
                if keep(s, best[1]):
                    changed = True
        for ti in range(len(best[0]["tasks"])):
            for oi in range(len(best[0]["tasks"][ti]["ops"])):
                op = best[0]["tasks"][ti]["ops"][oi]
                if op["op"] == "parse" and op.get("src") == "path":
                    s = copy.deepcopy(best[0])
                    s["tasks"][ti]["ops"][oi]["src"] = "scanner"
                    if keep(s, best[1]):
                        changed = True
        # 6. fewer context switches: try the sequential schedule, then merge adjacent segments
        spec, schedule, _ = best
        if schedule:
            seq = sorted(schedule)
            if seq != schedule and keep(spec, seq):
                changed = True
            else:
                sch = list(best[1])
                i = 1
                while i < len(sch) - 1 and budget.ok():
                    if sch[i] != sch[i - 1]:
                        # move the segment boundary: let the previous task run one step longer
                        cand = sch[:i] + [sch[i - 1]] + sch[i:]
                        if keep(best[0], cand):
                            sch = list(best[1])
                            changed = True
                            continue
                    i += 1
    spec, schedule, out = best
    if not spec.get("keep_files"):
        pr = prune(spec)
        o2 = attempt(prop, pr, schedule, want, Budget(1, 30))
        if o2 is not None:
            spec, out = pr, o2
            schedule = o2["schedule"] if o2["schedule"] is not None else schedule
    return spec, schedule, out, budget.used


def prune(spec):
    """Remove what no operation refers to: instances, files, labels (no re-execution semantics change)."""
    s = copy.deepcopy(spec)
    s.pop("labels", None)
    used_files = set()
    for t in s["tasks"]:
        for kind, key in (("parsers", "p"), ("matchers", "m"), ("compilers", "c"), ("streams", "s")):
            inst = t.get(kind) or []
            used = sorted({op[key] for op in t["ops"] if op.get(key) is not None and key in op} |
                          ({op["also"] for op in t["ops"] if op.get("also") is not None} if kind == "streams" else set()))
            remap = {old: new for new, old in enumerate(used)}
            t[kind] = [inst[i] for i in used if i < len(inst)]
            for op in t["ops"]:
                if op.get(key) is not None and key in op:
                    op[key] = remap[op[key]]
                if kind == "streams" and op.get("also") is not None:
                    if op["also"] in remap:
                        op["also"] = remap[op["also"]]
                    else:
                        op.pop("also")
        for op in t["ops"]:
            if op.get("path"):
                used_files.add(op["path"])
            for p in op.get("paths", ()):
                used_files.add(p)
            for p in op.get("argv", ()):
                used_files.add(p)
            if op["op"] == "write":
                used_files.add(op["path"])
    fs = s.get("fs") or {}
    for k in ("files", "binfiles", "faults"):
        if fs.get(k):
            fs[k] = {p: v for p, v in fs[k].items() if p in used_files or k == "files" and p in s.get("keep_files", ())}
    return s


def fresh_once(pid, seed, spec, schedule, prefix, tag, wd):
    """Execute (prefix runs, then) the candidate in a brand-new interpreter; returns the outcome summary or None."""
    import os
    from .runner import run_workers
    out = os.path.join(wd, "once-%s.json" % tag)
    args = {"job": "once", "name": "once-" + tag, "prop": pid, "seed": seed, "spec": spec, "schedule": schedule, "prefix": prefix or [], "out": out, "wall_s": 600}
    res, errors = run_workers([(args, 0)], 600)
    try:
        os.remove(out)
        os.remove(out + ".args")
    except OSError:
        pass
    return res[0] if res and res[0] is not None else None


def once_job(args):
    """(internal) worker side of fresh_once."""
    from . import props
    prop = props.get_prop(args["prop"])
    for scen, index in args.get("prefix") or []:
        try:
            props.run_one(prop, prop.spec(scen, index, args["seed"]))
        except Exception:  # noqa: BLE001 - the prefix only has to put the process into the same state
            pass
    out = props.run_one(prop, args["spec"], args.get("schedule"))
    return {"name": args["name"], "violations": out["violations"], "digest": out["digest"], "schedule": out["schedule"]}


def origin_prefix(origin, scenario, index):
    """The runs the reporting worker had executed before this one, in its order."""
    pre = []
    for scen, total in origin["work"]:
        rng = range(0, min(origin.get("det_sample", 48), total)) if origin.get("only_det") else range(origin["w"], total, origin["n"])
        for i in rng:
            if scen == scenario and i == index:
                return pre
            pre.append([scen, i])
    return pre


def job(args):
    import os
    from . import props
    rep = args["report"]
    pid, seed = args["prop"], args.get("seed", 0)
    prop = props.get_prop(pid)
    wd = os.path.dirname(args["out"])
    orig = size(rep["spec"])
    want = classes(rep["violations"])
    spec, schedule, out, used = minimise(prop, rep["spec"], rep["schedule"], rep["violations"], args.get("budget_runs", 2000), args.get("budget_s", 60))
    note = None
    if out is not None:
        f = fresh_once(pid, seed, spec, schedule, [], args["name"] + "a", wd)
        if f is not None and classes(f["violations"]) & want:
            new = dict(rep, spec=spec, schedule=schedule, violations=f["violations"], digest=f["digest"], minimised=True,
                       original_size=orig, minimised_size=size(spec), minimiser_runs=used, prefix=[])
            return {"name": args["name"], "report": new}
        note = "the in-process minimum did not reproduce in a fresh interpreter: process-level state carried over between attempts"
    # does the recorded run reproduce on its own in a fresh interpreter?
    f = fresh_once(pid, seed, rep["spec"], rep["schedule"], [], args["name"] + "b", wd)
    if f is not None and classes(f["violations"]) & want:
        # shrink coarsely, every attempt in its own interpreter
        import copy
        cur, cur_s, cur_f, tries = rep["spec"], rep["schedule"], f, 0
        progress = True
        while progress and tries < 60:
            progress = False
            cands = []
            for ti in range(len(cur["tasks"]) - 1, -1, -1):
                if len(cur["tasks"]) > 1:
                    c = copy.deepcopy(cur)
                    del c["tasks"][ti]
                    if len(c["tasks"]) == 1:
                        c.pop("force_kernel", None)
                    cands.append((c, project_schedule(cur_s, [i for i in range(len(cur["tasks"])) if i != ti]) if len(c["tasks"]) > 1 else None))
            for ti in range(len(cur["tasks"])):
                for oi in range(len(cur["tasks"][ti]["ops"]) - 1, -1, -1):
                    if len(cur["tasks"][ti]["ops"]) > 1:
                        c = drop_op(cur, ti, oi)
                        if c is not None:
                            cands.append((c, cur_s))
            for c, cs in cands:
                tries += 1
                g = fresh_once(pid, seed, c, cs, [], args["name"] + "c", wd)
                if g is not None and classes(g["violations"]) & want:
                    cur, cur_s, cur_f, progress = c, g["schedule"] if g["schedule"] is not None else cs, g, True
                    break
                if tries >= 60:
                    break
        cur = prune(cur)
        g = fresh_once(pid, seed, cur, cur_s, [], args["name"] + "d", wd)
        if g is None or not (classes(g["violations"]) & want):
            cur, cur_s, g = rep["spec"], rep["schedule"], f
        new = dict(rep, spec=cur, schedule=cur_s, violations=g["violations"], digest=g["digest"], minimised=cur is not rep["spec"],
                   original_size=orig, minimised_size=size(cur), minimiser_runs=used + tries, prefix=[], note=note)
        return {"name": args["name"], "report": new}
    # history-dependent: needs the runs the worker executed before it
    origin = rep.get("origin")
    if origin:
        pre = origin_prefix(origin, rep["scenario"], rep["index"])
        for k in (1, 8, 64, 512, len(pre)):
            sub = pre[-k:] if k < len(pre) else pre
            g = fresh_once(pid, seed, rep["spec"], rep["schedule"], sub, args["name"] + "e", wd)
            if g is not None and classes(g["violations"]) & want:
                # shrink the prefix: keep halving while one half alone still reproduces
                tries = 0
                while len(sub) > 1 and tries < 24:
                    h = len(sub) // 2
                    shrunk = False
                    for cand in (sub[h:], sub[:h]):
                        tries += 1
                        g2 = fresh_once(pid, seed, rep["spec"], rep["schedule"], cand, args["name"] + "f", wd)
                        if g2 is not None and classes(g2["violations"]) & want:
                            sub, g, shrunk = cand, g2, True
                            break
                    if not shrunk:
                        break
                new = dict(rep, violations=g["violations"], digest=g["digest"], minimised=False, prefix=sub, original_size=orig,
                           note="history-dependent: reproduces only after the %d preceding runs of the same worker process (module-level state); replay executes them first" % len(sub))
                return {"name": args["name"], "report": new}
            if k >= len(pre):
                break
    rep["minimised"] = False
    rep["note"] = "violation did not reproduce from the recorded run in a fresh interpreter, even after the worker's preceding runs"
    rep["prefix"] = []
    return {"name": args["name"], "report": rep}
