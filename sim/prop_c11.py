"""C11: ids unique, dense, canonically ordered, references resolve - oracle and scenarios.

The object under test is a shared mutable counter whose lifetime is longer than a document:
histories of parse / compile / stream operations (with rejected documents burning ids) over one
or two generators, and builders of several tasks drawing from ONE generator, interleaved at token
boundaries."""
from __future__ import annotations

import random

from . import engine, idmodel, seams, workload
from .kernel import POLICIES
from .props import Prop, PROPS, h48
from .runner import splitmix64
from .prop_c17 import ALL_OPTS

ORACLES = ["progress"]


class C11Hook:
    def __init__(self, clause4=False):
        self.defined = {}  # generator key -> {id: (task, op)}
        self.stats = {"ids_in_outputs": 0, "docs_numbered": 0, "pickle_sets_resolved": 0, "fresh_literal_checks": 0, "burned_ids": 0, "multi_kind_docs": 0}
        self.clause4 = clause4
        self.fresh_cache = FRESH

    # -- helpers
    def _gkey_parser(self, ts, p):
        ps = ts.spec["parsers"][p]
        return ("g", ps["g"]) if ps["b"] == "ast" else ("pp", ts.ti, p)

    def _gkey_compiler(self, ts, c):
        cs = ts.spec["compilers"][c]
        return ("g", cs["g"]) if cs.get("g") is not None else ("pc", ts.ti, c)

    def _define(self, run, ts, oi, gkey, ids, draws, what):
        self.stats["ids_in_outputs"] += len(ids)
        seen = self.defined.setdefault(gkey, {})
        drawn = set(draws)
        for i in ids:
            if not isinstance(i, str):
                run.violation("C11-unique", ts.ti, oi, "$" + what, "string id", repr(i))
                continue
            if i in seen:
                run.violation("C11-unique", ts.ti, oi, "$" + what, "id %r handed out once per generator" % i, "already used by task %d op %d" % seen[i])
            else:
                seen[i] = (ts.ti, oi)
            if i not in drawn:
                run.violation("C11-unique", ts.ti, oi, "$" + what + ".origin", "id %r drawn from the generator during this operation" % i, "not among the %d draws of the operation" % len(draws))

    def _literal_inc(self, run, ts, oi, ids_in_order, what):
        """Shipped (incrementing) flavour: consecutive integers in canonical order."""
        if run.cfg.get("flavour", "inc") != "inc" or not ids_in_order or len(run.states) > 1:
            return  # with several tasks on one generator other draws legitimately fall in between
        try:
            nums = [int(x) for x in ids_in_order]
        except (TypeError, ValueError):
            run.violation("C11-dense", ts.ti, oi, "$" + what, "decimal ids", ids_in_order[:5])
            return
        for k, n in enumerate(nums):
            if n != nums[0] + k:
                run.violation("C11-dense", ts.ti, oi, "$%s[%d]" % (what, k), nums[0] + k, n)
                return

    def _fresh(self, run, ts, oi, text, ms, srcclass):
        """Clause 3 on the letter: fresh incrementing generator => 0,1,2,... in canonical order (cached per document)."""
        key = (text, engine.canon(ms), srcclass)
        verdict = self.fresh_cache.get(key)
        if verdict is None:
            cr = engine.ALONE.compile(text, ms, "fresh.feature", srcclass)
            if cr["kind"] != "pickles":
                verdict = ("n/a", None)
            else:
                pr = idmodel.numbering_problem(cr["parse"]["raw"], cr["raw"])
                verdict = ("bad", pr) if pr else ("ok", None)
                if verdict[0] == "ok" and self.clause4:
                    again = engine.Alone().compile(text, ms, "fresh.feature", srcclass)
                    if idmodel.all_ids(again["parse"]["raw"]) != idmodel.all_ids(cr["parse"]["raw"]) or idmodel.all_ids(again["raw"]) != idmodel.all_ids(cr["raw"]):
                        verdict = ("bad", "equal input processed twice with fresh generators gave different ids")
            if len(self.fresh_cache) > 20000:
                self.fresh_cache.clear()
            self.fresh_cache[key] = verdict
            self.stats["fresh_literal_checks"] += 1
        if verdict[0] == "bad":
            run.violation("C11-canonical", ts.ti, oi, "$fresh", "ids 0,1,2,... in canonical order", verdict[1])
        self._reference(run, ts, oi, text, ms, srcclass)

    def _reference(self, run, ts, oi, text, ms, srcclass):
        """'The canonical order shared by all implementations' is on file for the acceptance corpus: with a fresh
        incrementing generator the ids of AST nodes, pickles, pickle steps and every reference must be the ones in
        testdata/good/<name>.feature.{ast,pickles}.ndjson."""
        name = (run.spec.get("labels") or [None])[0]
        if run.spec.get("scenario") != "canon" or not isinstance(name, str) or not name.startswith("good/") or ms is not None:
            return
        key = ("ref", name)
        verdict = self.fresh_cache.get(key)
        if verdict is None:
            import json
            import os
            verdict = ("n/a", None)
            base = os.path.join(REPO_PATH(), "testdata", name + ".feature")
            try:
                with open(base + ".ast.ndjson", encoding="utf-8") as f:
                    ref_doc = [json.loads(x)["gherkinDocument"] for x in f if x.strip()]
                with open(base + ".pickles.ndjson", encoding="utf-8") as f:
                    ref_pk = [json.loads(x)["pickle"] for x in f if x.strip()]
            except (OSError, ValueError, KeyError):
                ref_doc = None
            if ref_doc and len(ref_doc) == 1:
                cr = engine.ALONE.compile(text, ms, "fresh.feature", srcclass)
                if cr["kind"] == "pickles":
                    # ids in the model's walk order (the key order of the two JSON renderings differs)
                    got = [[n.get("id") for n in idmodel.canonical_ast_order(cr["parse"]["raw"])], id_skeleton(cr["raw"])]
                    want = [[n.get("id") for n in idmodel.canonical_ast_order(ref_doc[0])], id_skeleton(ref_pk)]
                    d = engine.first_diff(want, got, "$reference")
                    verdict = ("bad", [d, want, got]) if d else ("ok", None)
                    self.stats["reference_id_comparisons"] = self.stats.get("reference_id_comparisons", 0) + 1
            self.fresh_cache[key] = verdict
        if verdict[0] == "bad":
            run.violation("C11-canonical", ts.ti, oi, verdict[1][0], verdict[1][1], verdict[1][2])

    def _check_doc(self, run, ts, oi, gkey, doc_snap, doc_norm, draws, tag="A"):
        ids = idmodel.all_ids(doc_snap)
        self._define(run, ts, oi, gkey, ids, draws, "ast")
        order = idmodel.canonical_ast_order(doc_norm)
        for i, node in enumerate(order):
            if node.get("id") != [tag, i]:
                run.violation("C11-canonical", ts.ti, oi, "$ast.order[%d]" % i, "draw %d of the operation (canonical order: rows, steps, examples, tags, owner)" % i,
                              "%r at %s" % (node.get("id"), node.get("location")))
                break
        if len(order) != len(ids):
            run.violation("C11-canonical", ts.ti, oi, "$ast.count", "%d id-bearing nodes" % len(order), "%d ids in the document" % len(ids))
        self._literal_inc(run, ts, oi, [n.get("id") for n in idmodel.canonical_ast_order(doc_snap)], "ast.literal")
        self.stats["docs_numbered"] += 1
        kinds = sum(1 for k in ('"tags": [{', '"dataTable"', '"examples": [{', '"background"') if k in engine.canon(doc_snap))
        if kinds >= 2:
            self.stats["multi_kind_docs"] += 1
        return ids

    def _check_pickles(self, run, ts, oi, gkey, doc_snap, pk_snap, pk_norm, draws, base=0, tag="P"):
        ids = [n.get("id") for n in idmodel.canonical_pickle_order(pk_snap)]
        self._define(run, ts, oi, gkey, ids, draws, "pickles")
        for i, node in enumerate(idmodel.canonical_pickle_order(pk_norm)):
            if node.get("id") != [tag, base + i]:
                run.violation("C11-canonical", ts.ti, oi, "$pickles.order[%d]" % i, "draw %d (pickle steps before their pickle, pickles in order)" % (base + i), repr(node.get("id")))
                break
        self._literal_inc(run, ts, oi, ids, "pickles.literal")
        if doc_snap is not None:
            for pr in idmodel.resolution_problems(doc_snap, pk_snap)[:3]:
                run.violation("C11-resolve", ts.ti, oi, "$" + pr.split("=")[0].split(" ")[0], "reference resolves to an AST node of the right kind", pr)
            self.stats["pickle_sets_resolved"] += 1

    # -- hook interface
    def after_op(self, run, ts, oi, op, rec):
        kind = op["op"]
        if kind == "parse":
            if rec["kind"] == "doc":
                draws = rec["draws"]
                ids = self._check_doc(run, ts, oi, self._gkey_parser(ts, op["p"]), rec["snap"], rec["norm"], draws)
                if len(ids) != len(draws):
                    run.violation("C11-dense", ts.ti, oi, "$ast.gaps", "every id drawn for an accepted document appears in it (no gaps)", "%d drawn, %d used" % (len(draws), len(ids)))
                ms = ts.spec["matchers"][op["m"]] if op.get("m") is not None else None
                self._fresh(run, ts, oi, op["text"], ms, "path" if op.get("src") == "path" else "text")
            elif rec["kind"] in ("composite", "single"):
                self.stats["burned_ids"] += len(rec["draws"])
        elif kind == "compile" and rec["kind"] == "pickles":
            prec = ts.records[op["of"]]
            self._check_pickles(run, ts, oi, self._gkey_compiler(ts, op["c"]), prec["snap"], rec["snap"], rec["norm"], rec["draws"])
            # "equal input gives equal ids": wherever the counter stands, the assignment of draws to pickles, pickle
            # steps and references is the one a fresh generator gives (compared draw-index-wise, ids only)
            pop = ts.spec["ops"][op["of"]]
            ms = ts.spec["matchers"][pop["m"]] if pop.get("m") is not None else None
            ref = engine.ALONE.compile(pop["text"], ms, op.get("uri", "u.feature"), "path" if pop.get("src") == "path" else "text")
            if ref["kind"] == "pickles":
                d = engine.first_diff(id_skeleton(ref["norm"]), id_skeleton(rec["norm"]), "$pickles.assignment")
                if d:
                    run.violation("C11-canonical", ts.ti, oi, d, id_skeleton(ref["norm"]), id_skeleton(rec["norm"]))
            n = len(idmodel.canonical_pickle_order(rec["snap"]))
            if n != len(rec["draws"]):
                run.violation("C11-dense", ts.ti, oi, "$pickles.gaps", "every id drawn by compile appears in a pickle", "%d drawn, %d used" % (len(rec["draws"]), n))
        elif kind == "stream":
            gkey = ("s", ts.ti, op["s"])
            for si, s in enumerate(rec["sources"]):
                doc = next((e["gherkinDocument"] for e in s["snap"] if isinstance(e, dict) and "gherkinDocument" in e), None)
                ndoc = next((e["gherkinDocument"] for e in s["norm"] if isinstance(e, dict) and "gherkinDocument" in e), None)
                pks = [e["pickle"] for e in s["snap"] if isinstance(e, dict) and "pickle" in e]
                npks = [e["pickle"] for e in s["norm"] if isinstance(e, dict) and "pickle" in e]
                sdraws = ts.ctx.draws[s["d0"]:s.get("d1", s["d0"])]
                a = 0
                if doc is not None:
                    a = len(self._check_doc(run, ts, oi, gkey, doc, ndoc, sdraws, tag="D"))
                if pks and s["status"] == "ok":
                    if doc is None:
                        text = s.get("data")
                        pr = engine.ALONE.parse(text, None, "ast", False, "text") if isinstance(text, str) else None
                        a = len(pr["draws"]) if pr and pr["kind"] == "doc" else 0
                    self._check_pickles(run, ts, oi, gkey, doc, pks, npks, sdraws, base=a, tag="D")
                if doc is None and not pks and s["status"] == "ok":
                    self.stats["burned_ids"] += len(sdraws)

    def at_end(self, run):
        env = seams.ENV
        per = {}
        for serial, out in env.rec.log:
            d = per.setdefault(serial, set())
            if out in d:
                run.violation("C11-unique", -1, -1, "$generator[%d]" % serial, "a generator never hands out the same id twice", repr(out))
                break
            d.add(out)


FRESH = {}


def id_skeleton(pickles):
    """Only the id-bearing part of a normalised pickle list."""
    return [[p.get("astNodeIds"), p.get("id"), [[s.get("astNodeIds"), s.get("id")] for s in p.get("steps", [])], [t.get("astNodeId") for t in p.get("tags", [])]]
            for p in pickles]


# ----------------------------------------------------------------------------- scenarios
def _canon_docs():
    return list(workload.pool()) + list(workload.corpus())


def canon_spec(index, seed):
    docs = _canon_docs()
    if index < len(docs):
        name, text = docs[index]
    else:
        rng = random.Random(splitmix64(seed, "C11/canon-gen", index))
        name, text = "gen", workload.gen_doc(rng, "en")
    wiring = index % 4
    parsers = [{"b": "ast", "g": 0}] if wiring in (0, 1) else [{"b": "astd"}] if wiring == 2 else [{"b": "ast", "g": 0, "late": True}]
    compilers = [{"g": 0}] if wiring == 0 else [{"g": 1}] if wiring == 1 else [{"g": None}] if wiring == 2 else [{"g": 0, "late": True}]
    ops = [{"op": "parse", "p": 0, "m": None, "text": text, "first": False, "src": "str"},
           {"op": "compile", "c": 0, "of": 0, "uri": "c.feature"},
           {"op": "parse", "p": 0, "m": None, "text": text, "first": False, "src": "str"},
           {"op": "compile", "c": 0, "of": 2, "uri": "c.feature"},
           {"op": "compile", "c": 0, "of": 0, "uri": "late.feature"}]
    return {"scenario": "canon", "prop": "C11", "labels": [name, ["stream-wiring", "readme-wiring", "default-wiring", "attribute-wiring"][wiring]], "oracles": ORACLES, "clause4": True,
            "cfg": {"flavour": "inc", "salt": 0, "genclass": ["plain", "journal", "duck", "own"][(index // 4) % 4]}, "gens": 2, "fs": {},
            "tasks": [{"parsers": parsers, "matchers": [], "compilers": compilers, "ops": ops}]}


def _id_task(rng, shared_gens, files, tname, nops, small):
    parsers = []
    for _ in range(rng.randint(1, 2)):
        parsers.append({"b": "ast", "g": shared_gens[rng.randrange(len(shared_gens))], "late": rng.random() < 0.15} if rng.random() < 0.85 else {"b": "astd"})
    compilers = []
    for _ in range(rng.randint(1, 2)):
        compilers.append({"g": shared_gens[rng.randrange(len(shared_gens))], "late": rng.random() < 0.15} if rng.random() < 0.85 else {"g": None})
    streams = [{"o": ALL_OPTS[rng.randrange(8)] if rng.random() < 0.3 else [True, True, True]} for _ in range(rng.randint(0, 2))]
    matchers = [rng.choice([None, {"c": "tm", "d": "en"}, {"c": "tm", "d": "fr"}])]
    ops, labels = [], []
    for oi in range(nops):
        docs_ok = [i for i, o in enumerate(ops) if o["op"] == "parse"]
        r = rng.random()
        if docs_ok and r < 0.35:
            ops.append({"op": "compile", "c": rng.randrange(len(compilers)), "of": docs_ok[rng.randrange(len(docs_ok))], "uri": "u%d.feature" % oi,
                        "attach": rng.choice(["set", "set", "copy", "copy", "copy", "copy", "copy", "copy", "json", "json"])})
            labels.append("compile")
            continue
        label, text = workload.pick_doc(rng, (matchers[0] or {"d": "en"})["d"], p_pool=0.5, p_corpus=0.15 if not small else 0.05, p_damage=0.3)
        if small and text.count("\n") > 40:
            text = workload.truncate_at(text, rng.randint(3, 40))
        if streams and r > 0.8:
            if rng.random() < 0.2:  # the caller changes the print options of a live stream
                ops.append({"op": "setopts", "s": rng.randrange(len(streams)), "o": ALL_OPTS[rng.randrange(8)], "how": rng.choice(["mutate", "replace"])})
                labels.append("setopts")
            p = "/simfs/%s/s%d.feature" % (tname, oi)
            files[p] = text
            paths = [p] + ([list(files)[rng.randrange(len(files))]] if rng.random() < 0.4 else [])
            ops.append({"op": "stream", "s": rng.randrange(len(streams)), "paths": paths,
                        "consumer": {"k": "drain"} if rng.random() < 0.8 else {"k": "take", "n": rng.randint(0, 4), "close": rng.random() < 0.5}})
            labels.append("stream:" + label)
            continue
        ops.append({"op": "parse", "p": rng.randrange(len(parsers)), "m": 0 if matchers[0] is not None else None, "text": text,
                    "first": rng.random() < 0.2, "src": rng.choice(["str", "scanner"])})
        labels.append(label)
    return {"parsers": parsers, "matchers": matchers if matchers[0] is not None else [], "compilers": compilers, "streams": streams, "ops": ops}, labels


def gen_hist(rng):
    if rng.random() < 0.12:
        from .scen_c15 import gen_stream_like
        spec = gen_stream_like(rng, "C11", ORACLES)
        spec["scenario"] = "hist"
        return spec
    files = {}
    ngens = rng.randint(1, 2)
    task, labels = _id_task(rng, list(range(ngens)), files, "t0", rng.randint(2, 12), False)
    spec = {"scenario": "hist", "prop": "C11", "labels": labels, "oracles": ORACLES,
            "cfg": {"flavour": rng.choice(["inc", "inc", "inc", "opaque", "weird"]), "salt": rng.getrandbits(32), "chunk_max": rng.choice([0, 0, 3]), "fs_seed": rng.getrandbits(30),
                    "drop": rng.random() < 0.5, "genclass": rng.choice(["plain", "plain", "journal", "duck", "own"])},
            "gens": ngens, "fs": {"files": files}, "tasks": [task]}
    if rng.random() < 0.1:
        spec["cfg"]["migrate"] = rng.choice(["alt", "all"])  # the history moves between threads (strictly sequential)
    return spec


def gen_inter(rng):
    files = {}
    ntasks = rng.choice([2, 2, 3])
    ngens = rng.choice([1, 1, 2])
    tasks, labels = [], []
    for ti in range(ntasks):
        t, lb = _id_task(rng, list(range(ngens)), files, "t%d" % ti, rng.randint(1, 5), True)
        tasks.append(t)
        labels.append(lb)
    spec = {"scenario": "inter", "prop": "C11", "labels": labels, "oracles": ORACLES, "force_kernel": True,
            "cfg": {"flavour": rng.choice(["inc", "inc", "inc", "opaque", "weird"]), "salt": rng.getrandbits(32), "chunk_max": 0, "fs_seed": 1,
                    "policy": POLICIES[rng.randrange(len(POLICIES))], "sched_seed": rng.getrandbits(32), "genclass": rng.choice(["plain", "plain", "journal", "duck", "own"])},
            "gens": ngens, "fs": {"files": files}, "tasks": tasks}
    if rng.random() < 0.1:
        victim = rng.randrange(ntasks)
        tasks[victim]["cancel_at"] = rng.randint(1, 50)
        spec["faults"] = [{"kind": "cancel", "task": victim}]
    if rng.random() < 0.15:
        spec["cfg"]["nest"] = [rng.getrandbits(16) for _ in range(ntasks - 1)]  # one thread, each task inside a gap of its predecessor
        spec["cfg"]["policy"] = "nested"
    return spec


class C11(Prop):
    id = "C11"
    scen_order = ["canon", "hist", "inter"]
    counts = {"quick": {"canon": 600, "hist": 4000, "inter": 4000}, "thorough": {"canon": 60000, "hist": 200000, "inter": 300000}}

    def count(self, scen, tier):
        from .props import scaled
        return scaled(self.counts[tier][scen])

    def spec(self, scen, index, seed):
        if scen == "canon":
            return canon_spec(index, seed)
        rng = random.Random(splitmix64(seed, "C11/" + scen, index))
        return gen_hist(rng) if scen == "hist" else gen_inter(rng)

    def hooks(self, spec):
        return [C11Hook(clause4=bool(spec.get("clause4")))]

    def account(self, acc, spec, out):
        hook = out["_run"].hooks[0]
        st = out["stats"]
        acc["evaluations"] += st["ops"]
        ex = acc["extra"]
        for k, v in hook.stats.items():
            ex[k] = ex.get(k, 0) + v
        ex["ids_drawn"] = ex.get("ids_drawn", 0) + st["draws"]
        fl = ex.setdefault("generator_flavours", {})
        f = spec["cfg"].get("flavour", "inc")
        fl[f] = fl.get(f, 0) + 1
        drawing_ops = sum(1 for t in spec["tasks"] for op in t["ops"])
        if spec["scenario"] == "canon":
            if hook.stats["multi_kind_docs"]:
                acc["nontrivial"].add(h48(["canon", spec["tasks"][0]["ops"][0]["text"], spec["labels"][1]]))
        elif drawing_ops >= 2 and st["draws"] > 0:
            acc["nontrivial"].add(h48(["hist", spec["tasks"], out["schedule"]]))
        if spec["scenario"] == "inter":
            acc["schedules"].add(h48(out["schedule"]))

    def finish(self, merged, tier):
        n, problems = idmodel.selfcheck(REPO_PATH())
        cov = {"model_vs_corpus_files": n, "schedules_distinct": len(merged["schedules"])}
        rule = ("evaluations = operations after which the id invariants were evaluated (uniqueness per generator over the whole history, origin of every id in the "
                "generator's draws, density, canonical order against the reference numbering model, resolution of every pickle reference by kind). "
                "distinct_nontrivial = distinct histories (operation list incl. documents, and schedule) with >= 2 operations on shared generators that drew ids, PLUS "
                "distinct accepted documents checked against the numbering model in which >= 2 node kinds compete for ids (tags / table rows / examples / background). "
                "The numbering model is re-validated against testdata/good/*.feature.{ast,pickles}.ndjson at the start of every check.")
        return cov, rule


def REPO_PATH():
    from .runner import REPO
    return REPO


PROPS["C11"] = C11()
