"""Run engine: executes a recorded run specification (instances, operations, faults, schedule)
against the real gherkin code behind the seams, and evaluates the oracles.

A *spec* is plain JSON data (documents inline) so that it can be stored as a replay file and
shrunk by the minimiser.  `execute(spec, schedule)` is a pure function of its arguments and
the code under test.
"""
from __future__ import annotations

import copy
import hashlib
import io
import json
import random
import sys

from . import seams
from .kernel import Kernel, NestKernel, SimCancelled, SimKilled, HarnessError

MEDIA_TYPE = "text/x.cucumber.gherkin+plain"


# ----------------------------------------------------------------------------- helpers
def canon(o):
    return json.dumps(o, sort_keys=True, ensure_ascii=True, default=repr)


def dig(o):
    return hashlib.sha256(canon(o).encode()).hexdigest()[:16]


def excerpt(o, n=240):
    s = o if isinstance(o, str) else canon(o)
    return s if len(s) <= n else s[:n] + "...(%d chars)" % len(s)


def first_diff(a, b, path="$"):
    """Path of the first difference between two JSON-like values, or None when equal."""
    if type(a) is not type(b) and not (isinstance(a, (list, tuple)) and isinstance(b, (list, tuple))):
        return path + " (type %s vs %s)" % (type(a).__name__, type(b).__name__)
    if isinstance(a, dict):
        for k in a:
            if k not in b:
                return "%s.%s (missing in actual)" % (path, k)
        for k in b:
            if k not in a:
                return "%s.%s (unexpected in actual)" % (path, k)
        for k in a:
            d = first_diff(a[k], b[k], "%s.%s" % (path, k))
            if d:
                return d
        return None
    if isinstance(a, (list, tuple)):
        if len(a) != len(b):
            return "%s (length %d vs %d)" % (path, len(a), len(b))
        for i, (x, y) in enumerate(zip(a, b)):
            d = first_diff(x, y, "%s[%d]" % (path, i))
            if d:
                return d
        return None
    return None if a == b else path


def strip_index(path):
    """Violation-class form of a diff path: indices removed, so that shrinking may move it."""
    out, depth = [], 0
    for ch in path:
        if ch == "[":
            depth += 1
            out.append("[")
        elif ch == "]":
            depth -= 1
            out.append("]")
        elif depth == 0:
            out.append(ch)
    return "".join(out).split(" (")[0]


def _pos(draws):
    pos = {}
    for i, d in enumerate(draws):
        pos.setdefault(d, i)
    return pos


def norm_doc(doc, draws):
    """Copy of an AST with every id replaced by its draw index within the operation."""
    pos = _pos(draws)

    def walk(o):
        if isinstance(o, dict):
            return {k: (["A", pos.get(v, "?" + v)] if k == "id" and isinstance(v, str) else walk(v)) for k, v in o.items()}
        if isinstance(o, (list, tuple)):
            return [walk(x) for x in o]
        return o

    return walk(doc)


def norm_pickles(pickles, ast_draws, comp_draws):
    apos, ppos = _pos(ast_draws), _pos(comp_draws)

    def ref(v):
        return ["A", apos.get(v, "?" + v)] if isinstance(v, str) else v

    def walk(o):
        if isinstance(o, dict):
            r = {}
            for k, v in o.items():
                if k == "id" and isinstance(v, str):
                    r[k] = ["P", ppos.get(v, "?" + v)]
                elif k == "astNodeIds" and isinstance(v, list):
                    r[k] = [ref(x) for x in v]
                elif k == "astNodeId":
                    r[k] = ref(v)
                else:
                    r[k] = walk(v)
            return r
        if isinstance(o, (list, tuple)):
            return [walk(x) for x in o]
        return o

    return walk(pickles)


ERR_CAP = 40


def err_snapshot(e):
    loc = getattr(e, "location", None)
    return [type(e).__name__, str(e), dict(loc) if isinstance(loc, dict) else repr(loc)]


def collect_ids(o, keys=("id",)):
    out = []

    def walk(x):
        if isinstance(x, dict):
            for k, v in x.items():
                if k in keys and isinstance(v, str):
                    out.append(v)
                else:
                    walk(v)
        elif isinstance(x, (list, tuple)):
            for y in x:
                walk(y)

    walk(o)
    return out


# ----------------------------------------------------------------------------- instances
def make_matcher(ms):
    if ms is None:
        return None
    if ms["c"] == "tm":
        from gherkin.token_matcher import TokenMatcher
        return TokenMatcher(ms["d"])
    if ms["c"] == "md":
        from gherkin.token_matcher_markdown import GherkinInMarkdownTokenMatcher
        return GherkinInMarkdownTokenMatcher(ms["d"])
    raise HarnessError("matcher spec " + repr(ms))


def make_parser(ps, gens):
    from gherkin.parser import Parser
    b = ps["b"]
    if b == "ast":
        from gherkin.ast_builder import AstBuilder
        if ps.get("late"):  # wired after construction through the public attribute
            builder = AstBuilder()
            builder.id_generator = gens[ps["g"]]
            return Parser(builder)
        return Parser(AstBuilder(gens[ps["g"]]))
    if b == "astd":
        return Parser()
    if b == "tok":
        from gherkin.token_formatter_builder import TokenFormatterBuilder
        return Parser(TokenFormatterBuilder())
    raise HarnessError("parser spec " + repr(ps))


def make_compiler(cs, gens):
    from gherkin.pickles.compiler import Compiler
    if cs.get("g") is not None and cs.get("late"):
        c = Compiler()
        c.id_generator = gens[cs["g"]]
        return c
    return Compiler(gens[cs["g"]]) if cs.get("g") is not None else Compiler()


def make_stream(ss):
    from gherkin.stream.gherkin_events import GherkinEvents
    o = ss["o"]
    return GherkinEvents(GherkinEvents.Options(print_source=o[0], print_ast=o[1], print_pickles=o[2]))


_JOURNAL = {}


class DuckGenerator:
    """A user-written generator that only implements the interface get_next_id() -> str (no IdGenerator base)."""

    def __init__(self):
        self._n = 0
        env = seams.ENV
        if env is not None:
            env.rec.register(self)

    def get_next_id(self):
        v = str(self._n)
        self._n += 1
        env = seams.ENV
        return env.rec.draw(self, v, seams.cur_ctx()) if env is not None else v


def make_generator(cfg):
    """The shipped IdGenerator, or (genclass 'journal') a user-style subclass of it: overrides get_next_id,
    keeps a journal of what it issued and has a length - so it is falsy while fresh."""
    from gherkin.stream.id_generator import IdGenerator
    if cfg.get("genclass") == "duck":
        return DuckGenerator()
    if cfg.get("genclass") == "own":
        cls = _JOURNAL.get("own")
        if cls is None:
            class OwnStateIdGenerator(IdGenerator):
                """A user subclass that keeps its OWN state and never calls the base class's counter."""

                def __init__(self):
                    super().__init__()
                    self._own = 0

                def get_next_id(self):
                    v = str(self._own)
                    self._own += 1
                    env = seams.ENV
                    return env.rec.draw(self, v, seams.cur_ctx()) if env is not None else v

            cls = _JOURNAL["own"] = OwnStateIdGenerator
        return cls()
    if cfg.get("genclass") != "journal":
        return IdGenerator()
    cls = _JOURNAL.get(IdGenerator)
    if cls is None:
        class JournalingIdGenerator(IdGenerator):
            def __init__(self):
                super().__init__()
                self.journal = []

            def get_next_id(self):
                v = super().get_next_id()
                self.journal.append(v)
                return v

            def __len__(self):
                return len(self.journal)

        cls = _JOURNAL[IdGenerator] = JournalingIdGenerator
    return cls()


def build_fs(spec):
    cfg = spec.get("cfg", {})
    fsd = spec.get("fs") or {}
    fs = seams.SimFS(seed=cfg.get("fs_seed", 0), chunk_max=cfg.get("chunk_max", 0), locale=cfg.get("locale", "utf-8"))
    fs.no_collision = bool(cfg.get("no_collision"))
    for p, t in (fsd.get("files") or {}).items():
        fs.files[p] = t.encode("utf-8")
    for p, h in (fsd.get("binfiles") or {}).items():
        fs.files[p] = bytes.fromhex(h)
    for p, f in (fsd.get("faults") or {}).items():
        fs.faults[p] = tuple(f) if isinstance(f, list) else f
    return fs


def probe_dirty(parser, matcher):
    """Which stale state the instances carry when an operation starts (observation only)."""
    hits = []
    try:
        if matcher is not None:
            if getattr(matcher, "dialect_name", None) != getattr(matcher, "_default_dialect_name", None):
                hits.append("dialect")
            if getattr(matcher, "_active_doc_string_separator", None):
                hits.append("delimiter")
            if getattr(matcher, "_indent_to_remove", 0):
                hits.append("indent")
            if getattr(matcher, "matched_feature_line", False):
                hits.append("md_feature_line")
        b = getattr(parser, "ast_builder", None)
        if getattr(b, "comments", None):
            hits.append("comments")
        if len(getattr(b, "stack", ())) > 1:
            hits.append("stack")
        if getattr(b, "_tokens", None):
            hits.append("tokens")
        if getattr(parser, "stop_at_first_error", False):
            hits.append("first_error_flag")
    except Exception:  # noqa: BLE001
        pass
    return hits


# ----------------------------------------------------------------------------- reference ("alone")
class Alone:
    """Results of operations on brand-new instances with nothing else in flight (cached)."""

    MAX_ENTRIES = 6000  # generated documents are unique: the cache is emptied when it grows past this

    def __init__(self):
        self.cache = {}
        self.computed = 0

    def _room(self):
        if len(self.cache) > self.MAX_ENTRIES:
            self.cache.clear()

    def parse(self, text, ms, bkind, first, srcclass):
        key = ("p", text, canon(ms), "ast" if bkind in ("ast", "astd") else bkind, bool(first), srcclass)
        r = self.cache.get(key)
        if r is None:
            self._room()
            r = self.cache[key] = self._parse(text, ms, bkind, first, srcclass)
        return r

    def _parse(self, text, ms, bkind, first, srcclass):
        self.computed += 1
        env = seams.RunEnv()
        env.fs.no_collision = srcclass != "path"  # reference: a text is a text, whatever the file system holds
        if srcclass == "path":
            env.fs.files["/simfs/alone/doc.feature"] = text.encode("utf-8")
        with seams.swap_env(env):
            from gherkin.stream.id_generator import IdGenerator
            gens = [IdGenerator()]
            parser = make_parser({"b": "ast" if bkind in ("ast", "astd") else bkind, "g": 0}, gens)
            matcher = make_matcher(ms)
            rec = run_parse(env.main_ctx, parser, matcher, text, first, "path" if srcclass == "path" else "scanner", "/simfs/alone/doc.feature")
        return rec

    def compile(self, text, ms, uri, srcclass="text"):
        key = ("c", text, canon(ms), uri, srcclass)
        r = self.cache.get(key)
        if r is None:
            self._room()
            self.computed += 1
            env = seams.RunEnv()
            env.fs.no_collision = srcclass != "path"
            if srcclass == "path":
                env.fs.files["/simfs/alone/doc.feature"] = text.encode("utf-8")
            with seams.swap_env(env):
                from gherkin.stream.id_generator import IdGenerator
                gens = [IdGenerator()]
                parser = make_parser({"b": "ast", "g": 0}, gens)
                prec = run_parse(env.main_ctx, parser, make_matcher(ms), text, False, "path" if srcclass == "path" else "scanner", "/simfs/alone/doc.feature")
                if prec["kind"] != "doc":
                    r = {"kind": "n/a", "parse": prec}
                else:
                    compiler = make_compiler({"g": 0}, gens)
                    r = run_compile(env.main_ctx, compiler, prec, uri, "copy")
                    r["parse"] = prec
            self.cache[key] = r
        return r


ALONE = Alone()


# ----------------------------------------------------------------------------- operations
def run_parse(ctx, parser, matcher, text, first, src, path=None, modes=None):
    from gherkin.errors import CompositeParserException, ParserError
    r0, t0, d0, g0 = ctx.reads, ctx.toks, len(ctx.draws), ctx.gates
    dirty = probe_dirty(parser, matcher)
    try:
        # a caller sets the flag when it wants another mode, not before every parse: a flag the code flipped itself stays visible
        # (the mode last asked for is remembered on the harness side: nothing is stored on the object under test)
        last = modes.get(id(parser), False) if modes is not None else False
        if last != bool(first):
            parser.stop_at_first_error = bool(first)
            if modes is not None:
                modes[id(parser)] = bool(first)
        if src == "str":
            source = text
        else:
            from gherkin.token_scanner import TokenScanner
            source = TokenScanner(path if src == "path" else text)
        res = parser.parse(source, matcher) if matcher is not None else parser.parse(source)
        kind = "doc" if isinstance(res, dict) else "tokens" if isinstance(res, str) else "other"
        out = res
    except CompositeParserException as e:
        # the parser gives up after the 11th error: a much longer list (a change that lets error lists grow with the
        # history) is recorded by its head and its length, so that comparing it stays cheap
        errs = list(e.errors)
        kind, out = "composite", [err_snapshot(x) for x in errs[:ERR_CAP]]
        if len(errs) > ERR_CAP:
            out.append(["TooManyErrors", "%d errors in one CompositeParserException" % len(errs), {"line": 0, "column": 0}])
    except ParserError as e:
        kind, out = "single", err_snapshot(e)
    except (SimCancelled, SimKilled):
        ctx.obs = None
        raise
    except Exception as e:  # noqa: BLE001 - foreign exceptions are outcomes to be compared
        kind, out = "foreign", [type(e).__name__, str(e)]
    ctx.obs = None
    draws = ctx.draws[d0:]
    try:
        snap = copy.deepcopy(out)
    except Exception:  # noqa: BLE001
        snap = repr(out)
        out = snap
    norm = norm_doc(out, draws) if kind == "doc" else snap
    return {"op": "parse", "kind": kind, "raw": out, "snap": snap, "norm": norm, "draws": draws,
            "reads": ctx.reads - r0, "toks": ctx.toks - t0, "gates": ctx.gates - g0, "dirty": dirty}


def run_compile(ctx, compiler, prec, uri, attach):
    d0 = len(ctx.draws)
    doc = prec["raw"]
    if attach == "set":  # README style: the caller adds the uri to the document itself
        doc["uri"] = uri
        prec["snap"] = copy.deepcopy(doc)
        arg = doc
    elif attach == "json":  # the document as it arrives from another process (NDJSON message): equal value, none of the parser's objects
        arg = json.loads(json.dumps({**doc, "uri": uri}))
    else:  # stream style: shallow copy with uri
        arg = {**doc, "uri": uri}
    before = copy.deepcopy(arg)
    ctx.watch = [arg, before, None]  # the id generator is the one seam inside compile(): the argument is compared at every draw
    try:
        res = compiler.compile(arg)
        kind, out = "pickles", res
    except (SimCancelled, SimKilled):
        raise
    except Exception as e:  # noqa: BLE001
        kind, out = "foreign", [type(e).__name__, str(e)]
    draws = ctx.draws[d0:]
    during = ctx.watch[2]
    ctx.watch = None
    snap = copy.deepcopy(out)
    norm = norm_pickles(out, prec["draws"], draws) if kind == "pickles" else snap
    return {"op": "compile", "kind": kind, "raw": out, "snap": snap, "norm": norm, "draws": draws, "modified_during": during is not None,
            "arg_intact": arg == before, "arg_diff": None if arg == before else first_diff(before, arg),
            "reads": 0, "toks": 0, "dirty": []}


def _on_other_thread(fn):
    import threading
    box = {}

    def target():
        try:
            box["r"] = fn()
        except BaseException as e:  # noqa: BLE001 - re-raised on the calling thread
            box["e"] = e

    th = threading.Thread(target=target, daemon=True)
    th.start()
    th.join()
    if "e" in box:
        raise box["e"]
    return box["r"]


class TaskState:
    def __init__(self, ti, tspec, gens, run):
        self.ti = ti
        self.spec = tspec
        self.run = run
        self.ctx = seams.Ctx()
        self.parsers = [make_parser(p, gens) for p in tspec.get("parsers", [])]
        self.matchers = [make_matcher(m) for m in tspec.get("matchers", [])]
        self.compilers = [make_compiler(c, gens) for c in tspec.get("compilers", [])]
        self.streams = [make_stream(s) for s in tspec.get("streams", [])]
        self.records = []
        self.modes = {}  # id(parser) -> error mode the harness last asked for
        self.cur_opts = {i: list(ss["o"]) for i, ss in enumerate(tspec.get("streams", []))}
        self.cur_first = {}  # stream index -> the caller put the stream's parser into stop-at-first-error mode
        self.finished = False

    def body(self, task=None):
        k = self.run.kernel
        if k is not None:
            k.yield_point("start")
        for oi, op in enumerate(self.spec["ops"]):
            if k is not None and oi:
                k.yield_point("op")
            mig = self.run.cfg.get("migrate") if k is None else None
            if mig == "all" or (mig == "alt" and oi % 2 == 1):
                rec = _on_other_thread(lambda: self.do_op(oi, op))  # a history that migrates between threads (still strictly sequential)
            else:
                rec = self.do_op(oi, op)
            self.records.append(rec)
            if k is not None:
                k.log("end", dig(rec.get("norm")))
            self.run.after_op(self, oi, op, rec)
            if self.run.cfg.get("drop"):
                self.drop_unreferenced(oi)
        self.finished = True

    def drop_unreferenced(self, oi):
        """A consumer that does not keep results: everything no later operation refers to is released,
        so that the interpreter may reuse the memory (object identities of dead documents come back)."""
        ops = self.spec["ops"]
        needed = {op["of"] for op in ops[oi + 1:] if op["op"] == "compile"}
        for j, r in enumerate(self.records):
            if j not in needed and r.get("raw") is not None or (j not in needed and r.get("sources")):
                r["dg"] = dig([r.get("kind"), r.get("norm")])
                for k in ("raw", "snap", "norm", "sources"):
                    if k in r:
                        r[k] = None

    def do_op(self, oi, op):
        kind = op["op"]
        if kind == "parse":
            parser = self.parsers[op["p"]]
            matcher = self.matchers[op["m"]] if op.get("m") is not None else None
            return run_parse(self.ctx, parser, matcher, op["text"], op.get("first", False), op.get("src", "scanner"), op.get("path"), self.modes)
        if kind == "compile":
            prec = self.records[op["of"]]
            if prec.get("kind") != "doc":
                return {"op": "compile", "kind": "skipped", "norm": None, "raw": None, "snap": None, "draws": [], "reads": 0, "toks": 0, "dirty": []}
            return run_compile(self.ctx, self.compilers[op["c"]], prec, op.get("uri", "u.feature"), op.get("attach", "copy"))
        if kind == "write":  # harness operation: the file system changes between two operations
            fs = seams.cur_fs()
            fs.files[op["path"]] = op["text"].encode("utf-8")
            return {"op": "write", "kind": "write", "norm": [op["path"], dig(op["text"])], "raw": None, "snap": None, "draws": [], "reads": 0, "toks": 0, "dirty": []}
        if kind == "setopts":  # the caller changes the print options of a live stream (public dataclass attribute)
            ge = self.streams[op["s"]]
            o = op["o"]
            if op.get("how") == "replace":
                ge.options = type(ge.options)(print_source=o[0], print_ast=o[1], print_pickles=o[2])
            else:
                ge.options.print_source, ge.options.print_ast, ge.options.print_pickles = o
            self.cur_opts[op["s"]] = list(o)
            return {"op": "setopts", "kind": "setopts", "norm": [op["s"], o], "raw": None, "snap": None, "draws": [], "reads": 0, "toks": 0, "dirty": []}
        if kind == "setmode":  # the caller switches the stream's parser to stop-at-first-error mode (Parser's public flag)
            ge = self.streams[op["s"]]
            parser = getattr(ge, "parser", None)
            done = parser is not None and hasattr(parser, "stop_at_first_error")
            if done:
                parser.stop_at_first_error = bool(op["first"])
                self.cur_first[op["s"]] = bool(op["first"])
            return {"op": "setmode", "kind": "setmode", "norm": [op["s"], bool(op["first"]), done], "raw": None, "snap": None, "draws": [], "reads": 0, "toks": 0, "dirty": []}
        if kind == "stream":
            from .stream_ops import run_stream
            return run_stream(self, op)
        if kind == "cli":
            from .stream_ops import run_cli
            return run_cli(self, op)
        if kind == "tokcli":
            from .stream_ops import run_tokcli
            return run_tokcli(self, op)
        raise HarnessError("unknown op " + repr(kind))


class Run:
    """One simulated run: environment, tasks, oracle evaluation."""

    def __init__(self, spec, schedule=None, oracles=None):
        self.spec = spec
        self.cfg = spec.get("cfg", {})
        self.oracles = set(oracles if oracles is not None else spec.get("oracles", ["alone", "reads", "pure", "stable", "progress"]))
        self.violations = []
        self.explicit = schedule
        self.kernel = None
        self.stats = {}
        self.hooks = []  # extra oracle objects with after_op / at_end
        self.gen_counts = {}  # generator identity -> ids it should have handed out so far

    def violation(self, oracle, ti, oi, path, exp=None, act=None, extra=None):
        v = {"oracle": oracle, "task": ti, "op": oi, "path": path, "cls": oracle + ":" + strip_index(path or ""),
             "expected": excerpt(exp) if exp is not None else None, "actual": excerpt(act) if act is not None else None}
        if extra:
            v.update(extra)
        self.violations.append(v)

    # ---- reference results ----
    def alone_for(self, ts, op):
        kind = op["op"]
        if kind == "parse":
            ms = ts.spec["matchers"][op["m"]] if op.get("m") is not None else None
            b = ts.spec["parsers"][op["p"]]["b"]
            return ALONE.parse(op["text"], ms, b, op.get("first", False), "path" if op.get("src") == "path" else "text")
        if kind == "compile":
            pop = ts.spec["ops"][op["of"]]
            ms = ts.spec["matchers"][pop["m"]] if pop.get("m") is not None else None
            return ALONE.compile(pop["text"], ms, op.get("uri", "u.feature"), "path" if pop.get("src") == "path" else "text")
        return None

    def after_op(self, ts, oi, op, rec):
        kind = op["op"]
        ref = None
        if kind in ("parse", "compile") and ("alone" in self.oracles or "reads" in self.oracles or "pure" in self.oracles):
            ref = self.alone_for(ts, op)
        if kind == "parse" and ref is not None:
            if "alone" in self.oracles:
                if rec["kind"] != ref["kind"]:
                    self.violation("C15-alone", ts.ti, oi, "$kind", ref["kind"] + " " + excerpt(ref["norm"], 160), rec["kind"] + " " + excerpt(rec["norm"], 160))
                else:
                    d = first_diff(ref["norm"], rec["norm"])
                    if d:
                        self.violation("C15-alone", ts.ti, oi, d, ref["norm"], rec["norm"])
            if "reads" in self.oracles and op.get("src", "scanner") != "str" and rec["reads"] != ref["reads"]:
                self.violation("C15-reads", ts.ti, oi, "$reads", ref["reads"], rec["reads"])
        if kind == "compile" and ref is not None and rec["kind"] != "skipped":
            if "alone" in self.oracles and ref["kind"] != "n/a":
                if rec["kind"] != ref["kind"]:
                    self.violation("C15-alone", ts.ti, oi, "$kind", ref["kind"], rec["kind"] + " " + excerpt(rec["norm"], 160))
                else:
                    d = first_diff(ref["norm"], rec["norm"])
                    if d:
                        self.violation("C15-alone", ts.ti, oi, d, ref["norm"], rec["norm"])
            if "pure" in self.oracles and not rec.get("arg_intact", True):
                self.violation("C15-pure", ts.ti, oi, rec.get("arg_diff") or "$", None, None)
            elif "pure" in self.oracles and rec.get("modified_during"):
                self.violation("C15-pure", ts.ti, oi, "$during", "document unchanged at every id draw inside compile()", "document differed from its snapshot while compile() was running (restored afterwards)")
        if kind == "tokcli" and "alone" in self.oracles:
            exp, died = [], None
            for path in op["argv"]:
                text = seams.cur_fs().files.get(path, b"").decode("utf-8")
                r = ALONE.parse(text, None, "tok", False, "path")
                if r["kind"] != "tokens":
                    died = r["kind"]
                    break
                exp.append(r["norm"])
            want = "".join(x + "\n" for x in exp)
            if rec["stdout"] != want:
                self.violation(self.spec.get("prop", "C15") + "-alone", ts.ti, oi, first_diff(want.split("\n"), rec["stdout"].split("\n"), "$stdout.lines") or "$stdout", want, rec["stdout"])
            elif (died is None) != (rec["error"] is None):
                self.violation(self.spec.get("prop", "C15") + "-alone", ts.ti, oi, "$exit", "error: %s" % died, "error: %s" % (rec["error"],))
        if "offset" in self.oracles:
            self.check_offset(ts, oi, op, rec)
        if "stable" in self.oracles:
            self.check_stable(ts, oi)
        for h in self.hooks:
            try:
                h.after_op(self, ts, oi, op, rec)
            except (SimCancelled, SimKilled, HarnessError):
                raise
            except Exception as e:  # noqa: BLE001
                # an oracle that cannot even walk the output: the output does not have the shape every run on the
                # unchanged tree has (millions of runs never get here) - reported as a violation, not as a harness error
                import traceback
                where = traceback.extract_tb(e.__traceback__)[-1]
                self.violation(self.spec.get("prop", "C15") + "-malformed", ts.ti, oi, "$oracle", "output an oracle can walk",
                               "%s: %s at %s:%d" % (type(e).__name__, e, where.filename.rsplit("/", 1)[-1], where.lineno))

    def gen_identity(self, ts, oi, op):
        """Which generator the operation's instance was GIVEN (by the run specification)."""
        kind = op["op"]
        if kind == "parse":
            ps = ts.spec["parsers"][op["p"]]
            return ("g", ps["g"]) if ps["b"] == "ast" else ("pp", ts.ti, op["p"]) if ps["b"] == "astd" else ("none", ts.ti, oi)
        if kind == "compile":
            cs = ts.spec["compilers"][op["c"]]
            return ("g", cs["g"]) if cs.get("g") is not None else ("pc", ts.ti, op["c"])
        if kind == "stream":
            return ("s", ts.ti, op["s"])
        return ("op", ts.ti, oi)

    def check_offset(self, ts, oi, op, rec):
        """Shipped incrementing generator: the ids an operation draws are exactly the next ids of the
        generator its instance was given - one offset per operation, no ids of anybody else in between
        (tasks of C15 runs never share a generator, so any foreign draw is hidden shared state)."""
        if self.cfg.get("flavour", "inc") != "inc":
            return
        if op["op"] == "stream" and op.get("also") is not None and rec.get("sources"):
            # two streams in one operation: each source's draws belong to the stream that handled it
            for s in rec["sources"]:
                ident = ("s", ts.ti, s["sidx"] if s.get("sidx") is not None else op["s"])
                self._offset_one(ts, oi, ident, ts.ctx.draws[s["d0"]:s.get("d1", s["d0"])], rec)
            return
        self._offset_one(ts, oi, self.gen_identity(ts, oi, op), rec.get("draws") or [], rec)

    def _offset_one(self, ts, oi, ident, draws, rec):
        c = self.gen_counts.get(ident, 0)
        self.gen_counts[ident] = c + len(draws)
        want = [str(c + k) for k in range(len(draws))]
        if draws != want and not rec.get("offset_reported"):
            k = next((i for i, (x, y) in enumerate(zip(draws, want)) if x != y), min(len(draws), len(want)))
            self.violation(self.spec.get("prop", "C15") + "-offset", ts.ti, oi, "$draws[%d]" % k, want[k:k + 4], draws[k:k + 4])
            self.gen_counts[ident] = None if not draws else self.gen_counts[ident]
            try:
                self.gen_counts[ident] = int(draws[-1]) + 1
            except (ValueError, IndexError, TypeError):
                self.gen_counts[ident] = c + len(draws)

    def check_stable(self, ts, upto):
        for j, r in enumerate(ts.records):
            if r.get("raw") is None or r.get("stable_reported"):
                continue
            if r["raw"] != r["snap"]:
                r["stable_reported"] = True
                self.violation(self.spec.get("prop", "C15") + "-stable", ts.ti, upto, "$earlier[%d]%s" % (j, (first_diff(r["snap"], r["raw"]) or "$")[1:]), r["snap"], r["raw"])

    # ---- execution ----
    def estimate_steps(self, states):
        total = 8
        self.est_per_task = []
        for ts in states:
            before = total
            self.est_per_task.append(0)
            for op in ts.spec["ops"]:
                if op["op"] == "parse":
                    total += ALONE.parse(op["text"], ts.spec["matchers"][op["m"]] if op.get("m") is not None else None,
                                         ts.spec["parsers"][op["p"]]["b"], op.get("first", False),
                                         "path" if op.get("src") == "path" else "text")["gates"] + 2
                elif op["op"] == "tokcli":
                    for path in op["argv"]:
                        total += ALONE.parse(seams.cur_fs().files.get(path, b"").decode("utf-8"), None, "tok", False, "path")["gates"] + 2
                elif op["op"] in ("stream", "cli"):
                    from .stream_ops import estimate_stream_steps
                    total += estimate_stream_steps(self, ts, op)
                else:
                    total += 2
                self.est_per_task[-1] = total - before
        return total

    def execute(self):
        seams.install()
        spec, cfg = self.spec, self.cfg
        fs = build_fs(spec)
        ntasks = len(spec["tasks"])
        use_kernel = ntasks > 1 or spec.get("force_kernel", False)
        env = seams.RunEnv(kernel=None, fs=fs, flavour=cfg.get("flavour", "inc"), salt=cfg.get("salt", 0))
        with seams.swap_env(env):
            gens = [make_generator(cfg) for _ in range(spec.get("gens", 0))]
            self.gens = gens
            states = [TaskState(ti, tspec, gens, self) for ti, tspec in enumerate(spec["tasks"])]
            self.states = states
            est = self.estimate_steps(states)  # fills the reference cache before anything is in flight
            if use_kernel:
                if cfg.get("nest") is not None:
                    # all tasks on one thread, each started inside a yield point of its predecessor (re-entrant caller)
                    k = NestKernel([int(r) if cfg.get("nest_exact") else 1 + (int(r) % max(1, self.est_per_task[j] - 1)) for j, r in enumerate(cfg["nest"]) if j < len(states)],
                                   step_cap=2 * est + 16)
                else:
                    k = Kernel(policy=cfg.get("policy", "uniform"), rng=random.Random(cfg.get("sched_seed", 0)),
                               schedule=self.explicit, step_cap=2 * est + 16)
                self.kernel = env.kernel = k
                for ts in states:
                    t = k.spawn(ts.body)
                    t.ctx = ts.ctx
                    ca = ts.spec.get("cancel_at")
                    if ca is not None:
                        t.cancel_at = ca
                k.run(est_steps=est)
                for t in k.tasks:
                    if t.exc is not None:
                        raise HarnessError("task %d: %s: %s" % (t.idx, type(t.exc).__name__, t.exc)) from t.exc
                if k.overrun and "progress" in self.oracles:
                    stuck = [ts.ti for ts in states if not ts.finished and not k.tasks[ts.ti].cancelled]
                    self.violation("C15-progress", stuck[0] if stuck else -1, len(states[stuck[0]].records) if stuck else -1,
                                   "$steps", "<= %d" % k.step_cap, "step cap reached")
            else:
                states[0].ctx = env.main_ctx
                states[0].body()
            if "stable" in self.oracles:
                for ts in states:
                    self.check_stable(ts, len(ts.records) - 1)
            for h in self.hooks:
                try:
                    h.at_end(self)
                except (SimCancelled, SimKilled, HarnessError):
                    raise
                except Exception as e:  # noqa: BLE001
                    self.violation(self.spec.get("prop", "C15") + "-malformed", -1, -1, "$oracle.at_end", "output an oracle can walk", "%s: %s" % (type(e).__name__, e))
        return self.outcome(env, states)

    def outcome(self, env, states):
        k = self.kernel
        opd = [[r.get("dg") or dig([r.get("kind"), r.get("norm")]) for r in ts.records] for ts in states]
        h = hashlib.sha256(canon(opd).encode())
        if k is not None:
            h.update(k.digest().encode())
        dirty = {}
        for ts in states:
            for r in ts.records:
                for d in r.get("dirty", ()):
                    dirty[d] = dirty.get(d, 0) + 1
        st = {
            "ops": sum(len(ts.records) for ts in states),
            "reads": sum(ts.ctx.reads for ts in states),
            "toks": sum(ts.ctx.toks for ts in states),
            "draws": len(env.rec.log),
            "steps": len(k.schedule) if k else 0,
            "switches_inside": k.switches_inside if k else 0,
            "joint": sorted(k.joint, key=repr) if k else [],
            "cancelled": sum(1 for t in k.tasks if t.cancelled) if k else 0,
            "dirty": dirty,
            "abort_first": sum(1 for ts in states for r in ts.records if r.get("op") == "parse" and r.get("kind") == "single"),
            "abort_cap": sum(1 for ts in states for r in ts.records if r.get("op") == "parse" and r.get("kind") == "composite" and len(r.get("snap") or ()) > 10),
            "foreign": sum(1 for ts in states for r in ts.records if r.get("kind") == "foreign"),
            "fs": dict(fs_stats(env.fs)),
            "gate": seams.GATE,
        }
        sd = hashlib.sha256(canon([self.spec, list(k.schedule) if k else None, [e[:3] for e in k.events] if k else None]).encode()).hexdigest()
        return {"violations": self.violations, "schedule": list(k.schedule) if k else None, "digest": h.hexdigest(), "sched_digest": sd,
                "stats": st, "opdigests": opd}


def fs_stats(fs):
    return fs.stats


def execute(spec, schedule=None, oracles=None, hooks=()):
    run = Run(spec, schedule, oracles)
    run.hooks.extend(hooks)
    return run.execute()
