"""Workload: documents that put parser / matcher / builder / stream into many different states.

* fixed perturbation pool  /verif/pool/*.feature (committed)
* acceptance corpus        $VERIF_REPO/testdata/{good,bad}/*.feature (read from the working tree)
* seeded generator         grammar-directed text in a dialect of gherkin-languages.json + line damage
"""
from __future__ import annotations

import glob
import json
import os

VERIF = os.path.dirname(os.path.dirname(os.path.abspath(__file__)))
REPO = os.environ.get("VERIF_REPO", "/repo")

_cache = {}


def _read(path):
    with open(path, encoding="utf-8", newline="") as f:
        return f.read()


def pool():
    if "pool" not in _cache:
        _cache["pool"] = [(os.path.basename(p)[:-8], _read(p)) for p in sorted(glob.glob(os.path.join(VERIF, "pool", "*.feature")))]
    return _cache["pool"]


def corpus():
    if "corpus" not in _cache:
        out = []
        for sub in ("good", "bad"):
            for p in sorted(glob.glob(os.path.join(REPO, "testdata", sub, "*.feature"))):
                try:
                    out.append((sub + "/" + os.path.basename(p)[:-8], _read(p)))
                except (OSError, UnicodeDecodeError):
                    pass
        _cache["corpus"] = out
    return _cache["corpus"]


def languages():
    if "langs" not in _cache:
        with open(os.path.join(REPO, "gherkin-languages.json"), encoding="utf-8") as f:
            _cache["langs"] = json.load(f)
    return _cache["langs"]


COMMON_LANGS = ["en", "fr", "ja", "em", "no", "de", "ru", "ar", "zh-CN", "en-pirate", "ht", "sr-Latn"]
HEADERS = ["a", "b", "a", "b", "id", "uri", "name", "text", "type", "a", "a b", "a(b", "a.b", "[", "a\\\\", "$1", "é", "a|b".replace("|", "\\|"), "<a>", "*", "a+", "^a", "(?i)A"]
WORDS = ["alpha", "beta", "{x}", "%s", "cafe\u0301", "\u212bngstro\u0308m", "nb\u00a0sp", "<a>", "<b>", "<a(b>", "<a.b>", "<axb>", "<[>", "<a\\>", "<$1>", "<a b>", "<A>", "Given", "Soit", "|", "\"\"\"", "@x", "#", "ünï", "日本", "🎬", ":", "Feature:", "x y", "\\", "<", ">", "*"]


def _kw(rng, spec, key):
    ks = spec[key]
    return ks[rng.randrange(len(ks))]


def _text(rng, n=3):
    return " ".join(WORDS[rng.randrange(len(WORDS))] for _ in range(rng.randint(1, n)))


def _name(rng):
    return _text(rng, 2) if rng.random() < 0.85 else ""


def gen_doc(rng, default="en", force_lang=None):
    """A mostly well-formed document; returns text with LF line endings."""
    langs = languages()
    if force_lang is not None:
        lang = force_lang
    elif rng.random() < 0.55:
        lang = default
    else:
        lang = COMMON_LANGS[rng.randrange(len(COMMON_LANGS))] if rng.random() < 0.8 else sorted(langs)[rng.randrange(len(langs))]
    if lang not in langs:
        lang = "en"
    spec = langs[lang]
    L = []
    ind = lambda n: " " * n  # noqa: E731

    def blanks():
        r = rng.random()
        if r < 0.15:
            L.append("")
        elif r < 0.22:
            L.append("  # c " + _text(rng, 2))
        elif r < 0.25:
            L.append("   ")

    def description(i):
        if rng.random() < 0.25:
            for _ in range(rng.randint(1, 3)):
                L.append(ind(rng.choice([0, i, i + 2, i + 6, 10])) + "descr " + _text(rng, 3).replace("|", "/").replace("@", "a").replace("#", "n").replace('"""', "q"))
            if rng.random() < 0.3:
                L.append("")

    def tags(i, p=0.3):
        if rng.random() < p:
            for _ in range(rng.randint(1, 2)):
                L.append(ind(i) + " ".join("@t%d" % rng.randrange(5) for _ in range(rng.randint(1, 3))) + ("  #tc" if rng.random() < 0.1 else ""))
                if rng.random() < 0.25:
                    L.append(rng.choice(["", ind(i) + "# between tags", "  "]))

    def step(i, outline):
        kind = rng.choice(["given", "when", "then", "and", "but", "given", "when", "then"])
        kw = _kw(rng, spec, kind)
        t = _text(rng, 3)
        if outline and rng.random() < 0.6:
            t += " <%s>" % rng.choice("ab")
        L.append(ind(i) + kw + t)
        r = rng.random()
        if r < 0.15:
            cols = rng.randint(1, 3)
            for _ in range(rng.randint(1, 3)):
                L.append(ind(i + 2) + "| " + " | ".join(rng.choice(["v", "<a>", "", "\\|", "\\n", "x y", "é"]) for _ in range(cols)) + " |")
                if rng.random() < 0.1:
                    L.append(ind(i + 2) + "# in table")
        elif r < 0.3:
            d = rng.choice(['"""', "```"])
            di = rng.choice([0, i, i + 2, i + 2, 10])
            L.append(ind(di) + d + rng.choice(["", "", "json", "<a>"]))
            for _ in range(rng.randint(0, 3)):
                L.append(ind(rng.choice([0, di, di + 2, di])) + rng.choice(["content <a>", "", "  ", "@tag", "# no comment", "| c |", "Scenario: no", '\\"\\"\\"', "```" if d == '"""' else '"""', _kw(rng, spec, "given") + "x"]))
            L.append(ind(di) + d)

    def scenario(i):
        blanks()
        tags(i)
        outline = rng.random() < 0.35
        L.append(ind(i) + _kw(rng, spec, "scenarioOutline" if outline else "scenario") + ":" + (" " + _name(rng) if rng.random() < 0.9 else ""))
        description(i + 2)
        for _ in range(rng.choice([0, 1, 2, 2, 3, 4])):
            step(i + 2, outline)
            blanks()
        if outline:
            for _ in range(rng.choice([1, 1, 2, 3])):
                tags(i + 2, 0.4)
                L.append(ind(i + 2) + _kw(rng, spec, "examples") + ":" + (" " + _name(rng) if rng.random() < 0.5 else ""))
                description(i + 4)
                if rng.random() < 0.9:
                    h1, h2 = ("a", "b") if rng.random() < 0.8 else (HEADERS[rng.randrange(len(HEADERS))], HEADERS[rng.randrange(len(HEADERS))])
                    L.append(ind(i + 4) + "| %s | %s |" % (h1, h2))
                    for _ in range(rng.choice([0, 1, 2, 3])):
                        L.append(ind(i + 4) + "| %s | %s |" % (rng.choice(["1", "x y", "", "\\\\", "$1", "\\|", "\\1", "\\g<0>", "a\\"]), rng.choice(["2", "<a>", "é", "🎬", "<b>"])))

    def background(i):
        blanks()
        L.append(ind(i) + _kw(rng, spec, "background") + ":" + (" " + _name(rng) if rng.random() < 0.3 else ""))
        description(i + 2)
        for _ in range(rng.choice([0, 1, 2])):
            step(i + 2, False)

    if lang != default or rng.random() < 0.1:
        L.append(rng.choice(["# language: %s", "#language:%s", "  #  language :  %s  "]) % lang)
    if rng.random() < 0.15:
        L.append("# leading comment")
    tags(0, 0.3)
    L.append(_kw(rng, spec, "feature") + ":" + " " + _name(rng))
    description(2)
    if rng.random() < 0.35:
        background(2)
    for _ in range(rng.choice([0, 1, 1, 2, 3])):
        scenario(2)
    for _ in range(rng.choice([0, 0, 0, 1, 2])):
        blanks()
        tags(2, 0.3)
        L.append("  " + _kw(rng, spec, "rule") + ": " + _name(rng))
        description(4)
        if rng.random() < 0.3:
            background(4)
        for _ in range(rng.choice([0, 1, 2])):
            scenario(4)
    if rng.random() < 0.2:
        tags(2, 1.0)  # pending tags at the end -> rejected, look-ahead queue filled at EOF
    return "\n".join(L) + ("\n" if rng.random() < 0.8 else "")


JUNK = ["junk line", "Alors\u00a0que no-break space", "zero\u200bwidth and soft\u00adhyphen", "e\u0301 decomposed \u212b \u2126", "\x1b[31mescape\x1b[0m", "{\"json\": 1}", "{line} of {column}", "{} {0} %s %d", "100% {unclosed", "Feature: again", "  Background:", "| stray | row |", '"""', "```", "@tag only", "@bad tag with space", "# language: fr",
        "# language: xx", "    * star step", "Examples:", "  Rule: r", "Scenario Outline: so", "\t", "<a>", "  | ragged |", "And dangling"]


def damage(rng, text, others=()):
    """Seeded line-level damage: delete, duplicate, swap, truncate, splice, insert junk."""
    lines = text.split("\n")
    n = rng.choice([1, 1, 1, 2, 3])
    kinds = []
    for _ in range(n):
        if not lines:
            break
        k = rng.choice(["delete", "duplicate", "swap", "truncate", "splice", "junk", "junk"])
        i = rng.randrange(len(lines))
        kinds.append(k)
        if k == "delete":
            del lines[i]
        elif k == "duplicate":
            lines.insert(i, lines[i])
        elif k == "swap" and len(lines) > 1:
            j = min(len(lines) - 1, i + 1)
            lines[i], lines[j] = lines[j], lines[i]
        elif k == "truncate":
            del lines[max(1, i):]
        elif k == "splice" and others:
            o = others[rng.randrange(len(others))].split("\n")
            lines.insert(i, o[rng.randrange(len(o))])
        else:
            lines.insert(i, JUNK[rng.randrange(len(JUNK))])
    return "\n".join(lines), kinds


def truncate_at(text, k):
    """Early EOF after k lines (the k-th line keeps no terminator with probability decided by caller)."""
    parts = text.split("\n")
    return "\n".join(parts[:k]) + ("\n" if k < len(parts) and k > 0 else "")


def restyle(rng, text):
    """Line-ending / encoding variants for file-borne documents."""
    r = rng.random()
    if r < 0.2:
        text = text.replace("\r\n", "\n").replace("\n", "\r\n")
    elif r < 0.3 and text.endswith("\n"):
        text = text[:-1]
    if rng.random() < 0.05:
        text = "\ufeff" + text
    return text


def pick_doc(rng, default="en", p_pool=0.45, p_corpus=0.2, p_damage=0.35):
    """(label, text) for sampled histories."""
    r = rng.random()
    if r < p_pool:
        name, t = pool()[rng.randrange(len(pool()))]
        label = "pool:" + name
    elif r < p_pool + p_corpus and corpus():
        name, t = corpus()[rng.randrange(len(corpus()))]
        label = "corpus:" + name
    else:
        t = gen_doc(rng, default)
        label = "gen"
    if rng.random() < p_damage:
        t, kinds = damage(rng, t, [pool()[rng.randrange(len(pool()))][1]])
        label += "+" + ",".join(kinds)
    if len(t) > 6000 or t.count("\n") > 160:
        t = truncate_at(t, 120)
        label += "+cap"
    return label, t


def dialect_docs():
    """One document per dialect of the language table using EVERY listed keyword once (longest first
    within a role, so that keywords which are prefixes of others are exercised): hash-seed / order
    sensitivity of keyword matching shows as a different result in another interpreter."""
    if "dialects" not in _cache:
        out = []
        for lang, spec in sorted(languages().items()):
            L = ["# language: " + lang, spec["feature"][-1] + ": f"]
            if spec.get("background"):
                L += ["  " + spec["background"][0] + ": b"]
                L += ["    " + k + "bg step" for k in spec["given"][:1]]
            for si, sk in enumerate(spec["scenario"] + spec["scenarioOutline"]):
                L.append("  " + sk + ": s%d" % si)
                if si == 0:
                    for role in ("given", "when", "then", "and", "but"):
                        for k in sorted(set(spec[role]), key=lambda x: (-len(x), x)):
                            L.append("    " + k + "text of " + role)
                else:
                    L.append("    " + spec["given"][-1] + "x <a>")
                if sk in spec["scenarioOutline"]:
                    L += ["    " + spec["examples"][0] + ":", "      | a |", "      | 1 |"]
            for rk in spec.get("rule", [])[:1]:
                L += ["  " + rk + ": r", "    " + spec["scenario"][0] + ": in rule", "      " + spec["then"][-1] + "y"]
            out.append(("dialect/" + lang, "\n".join(L) + "\n"))
        _cache["dialects"] = out
    return _cache["dialects"]


# Same-shape documents that differ only in their texts: the ordinary streaming use (many similar feature
# files through one parser / compiler / stream, each result dropped before the next one is made).
TEMPLATES = [
    "Feature: doc {n}\n  Background:\n    Given a payload\n      \"\"\"\n      payload of document {n}\n      \"\"\"\n  Scenario: first\n    When it is sent\n      | n | {n} |\n  Scenario: second\n    Then it arrives\n",
    "@f{n}\nFeature: tagged {n}\n  @s{n} @common\n  Scenario: a\n    Given x {n}\n  @t{n}\n  Scenario Outline: o <v>\n    When <v> {n}\n      | c{n} | <v> |\n    @e{n}\n    Examples:\n      | v |\n      | {n} |\n      | z |\n",
    "Feature: rules {n}\n  Background:\n    Given fb {n}\n      | k | {n} |\n  Rule: r{n}\n    Background:\n      Given rb {n}\n    Example: e\n      Then y {n}\n        ```\n        body {n}\n        ```\n  Rule: q\n    Example: f\n      * z\n",
    "# comment {n}\nFeature: plain {n}\n  description {n}\n\n  Scenario: s{n}\n    Given g {n}\n    And a {n}\n    But b\n    # inner {n}\n    When w\n      | a | b |\n      | {n} | {n} |\n",
    "Feature: sometimes broken {n}\n  Scenario: s\n    Given t {n}\n      | a | b |\n      | {n} |{pad}\n  @tag{n}\n  Scenario: next\n    Given y\n",
]


def template_series(rng, k):
    t = TEMPLATES[rng.randrange(len(TEMPLATES))]
    out = []
    for n in range(k):
        out.append(("template:%d" % n, t.replace("{n}", str(n + rng.randrange(3))).replace("{pad}", " x |" if (n % 3) else "")))
    return out


def enlarge(rng, text):
    """A file larger than the usual I/O block sizes, multi-byte characters throughout, so that any fixed
    block boundary (4 KiB, 8 KiB, 64 KiB ...) is likely to fall inside a UTF-8 sequence."""
    target = rng.choice([4096, 8192, 8192, 16384, 65536]) + rng.randint(1, 3000)
    nl = "\r\n" if "\r\n" in text else "\n"
    if text and not text.endswith("\n"):
        text += nl
    alphabet = ["\u65e5\u672c\u8a9e", "\u00fcn\u00ef", "\U0001f3ac", "ascii", "\u0416\u0438", "x"]
    lines, size = [], len(text.encode("utf-8"))
    while size < target:
        ln = "# " + " ".join(alphabet[rng.randrange(len(alphabet))] for _ in range(rng.randint(8, 20)))
        lines.append(ln)
        size += len(ln.encode("utf-8")) + len(nl)
    return text + nl.join(lines) + nl, target
