"""Reference model of the id layer (C11): canonical numbering of an AST + pickles, and
resolution-by-kind of every id a pickle mentions.

The numbering model is a post-order walk: table rows -> step; steps -> examples (rows -> tags ->
examples) -> scenario tags -> scenario; background steps -> background; rule children -> rule tags
-> rule; feature tags last; then per pickle: its steps -> the pickle.  `selfcheck()` validates it
against the project's reference outputs (testdata/good/*.feature.{ast,pickles}.ndjson), which is
"the order shared by all implementations".
"""
from __future__ import annotations

import glob
import json
import os


def canonical_ast_order(doc):
    """List of the AST's id-bearing nodes (the dicts themselves) in canonical draw order."""
    order = []

    def rows(rs):
        for r in rs:
            order.append(r)

    def step(s):
        if "dataTable" in s:
            rows(s["dataTable"].get("rows", []))
        order.append(s)

    def tags(ts):
        # tags are numbered in DOCUMENT order (line, then column) - which is also the order of the list on a correct tree
        try:
            ts = sorted(ts, key=lambda t: (t["location"]["line"], t["location"].get("column", 0)))
        except (KeyError, TypeError, AttributeError):
            pass
        for t in ts:
            order.append(t)

    def background(b):
        for s in b.get("steps", []):
            step(s)
        order.append(b)

    def scenario(sc):
        for s in sc.get("steps", []):
            step(s)
        for ex in sc.get("examples", []):
            if "tableHeader" in ex:
                order.append(ex["tableHeader"])
            rows(ex.get("tableBody", []))
            tags(ex.get("tags", []))
            order.append(ex)
        tags(sc.get("tags", []))
        order.append(sc)

    def children(cs):
        for c in cs:
            if "background" in c:
                background(c["background"])
            elif "scenario" in c:
                scenario(c["scenario"])
            elif "rule" in c:
                r = c["rule"]
                children(r.get("children", []))
                tags(r.get("tags", []))
                order.append(r)

    f = doc.get("feature")
    if f:
        children(f.get("children", []))
        tags(f.get("tags", []))
    return order


def canonical_pickle_order(pickles):
    order = []
    for p in pickles:
        for s in p.get("steps", []):
            order.append(s)
        order.append(p)
    return order


def numbering_problem(doc, pickles, id_of=lambda n: n.get("id"), start=0, expect=lambda i: str(i)):
    """None when ids are start, start+1, ... in canonical order; else a description."""
    seq = canonical_ast_order(doc) + (canonical_pickle_order(pickles) if pickles is not None else [])
    for i, node in enumerate(seq):
        if id_of(node) != expect(start + i):
            kind = "pickle/pickle step" if i >= len(canonical_ast_order(doc)) else "AST node"
            return "position %d in canonical order (%s at %s) has id %r, expected %r" % (i, kind, node.get("location", node.get("name", "?")), id_of(node), expect(start + i))
    return None


def all_ids(o):
    """Every value stored under an 'id' key (definitions, not references)."""
    out = []

    def walk(x):
        if isinstance(x, dict):
            for k, v in x.items():
                if k == "id":
                    out.append(v)
                else:
                    walk(v)
        elif isinstance(x, list):
            for y in x:
                walk(y)

    walk(o)
    return out


def index_doc(doc):
    """scenario id -> context needed to resolve pickle references."""
    idx = {}
    f = doc.get("feature")
    if not f:
        return idx

    def scen(sc, inherited_tags, bg_steps):
        rows = {}
        for ex in sc.get("examples", []):
            for r in ex.get("tableBody", []):
                rows[r["id"]] = ex
        idx[sc["id"]] = {"scenario": sc, "rows": rows, "bg_steps": {s["id"] for s in bg_steps}, "own_steps": {s["id"] for s in sc.get("steps", [])},
                         "step_order": ([s["id"] for s in bg_steps] + [s["id"] for s in sc.get("steps", [])]) if sc.get("steps") else [],
                         "tags": list(inherited_tags) + list(sc.get("tags", [])), "has_examples": bool(sc.get("examples"))}

    fbg = []
    for c in f.get("children", []):
        if "background" in c:
            fbg = fbg + list(c["background"].get("steps", []))
        elif "scenario" in c:
            scen(c["scenario"], f.get("tags", []), fbg)
        elif "rule" in c:
            r = c["rule"]
            rbg = list(fbg)
            for rc in r.get("children", []):
                if "background" in rc:
                    rbg = rbg + list(rc["background"].get("steps", []))
                elif "scenario" in rc:
                    scen(rc["scenario"], list(f.get("tags", [])) + list(r.get("tags", [])), rbg)
    return idx


def resolution_problems(doc, pickles):
    """Every id a pickle mentions resolves to an AST node of the right kind (list of problems)."""
    out = []
    idx = index_doc(doc)
    claimed = {}  # scenario id -> [(row position in document order, pickle index)]
    doc_pos = {sid: n for n, sid in enumerate(idx)}  # scenarios in document order
    last_pos = (-1, -1)
    for pi, p in enumerate(pickles):
        r0 = p.get("astNodeIds")
        if isinstance(r0, list) and r0 and r0[0] in doc_pos:
            if doc_pos[r0[0]] < last_pos[0]:
                out.append("pickle[%d] is made from scenario %r, which comes BEFORE the scenario of pickle[%d] in the document (pickles, and their ids, follow document order)" % (pi, r0[0], last_pos[1]))
            last_pos = (max(last_pos[0], doc_pos[r0[0]]), pi if doc_pos[r0[0]] >= last_pos[0] else last_pos[1])
        where = "pickle[%d]" % pi
        refs = p.get("astNodeIds")
        if not isinstance(refs, list) or not refs:
            out.append(where + ".astNodeIds empty or missing")
            continue
        ctx = idx.get(refs[0])
        if ctx is None:
            out.append(where + ".astNodeIds[0]=%r is not the id of a scenario of this document" % (refs[0],))
            continue
        row = None
        if ctx["has_examples"]:
            if len(refs) != 2 or refs[1] not in ctx["rows"]:
                out.append(where + ".astNodeIds=%r: second id is not a body row of an examples table of that scenario" % (refs,))
            else:
                row = refs[1]
                order = list(ctx["rows"])  # body rows of this scenario's examples tables, in document order
                pos = order.index(row)
                for prev_pos, prev_pi in claimed.get(refs[0], []):
                    if prev_pos == pos:
                        out.append(where + ".astNodeIds=%r: example row %r is already the row of pickle[%d] (two pickles cannot be made from one row)" % (refs, row, prev_pi))
                        break
                    if prev_pos > pos:
                        out.append(where + ".astNodeIds=%r: example row %r comes before the row of the earlier pickle[%d] in the document" % (refs, row, prev_pi))
                        break
                claimed.setdefault(refs[0], []).append((pos, pi))
        elif len(refs) != 1:
            out.append(where + ".astNodeIds=%r: scenario without examples must be referenced alone" % (refs,))
        for si, s in enumerate(p.get("steps", [])):
            sr = s.get("astNodeIds")
            w2 = "%s.steps[%d]" % (where, si)
            if not isinstance(sr, list) or not sr:
                out.append(w2 + ".astNodeIds empty or missing")
                continue
            if sr[0] in ctx["own_steps"]:
                if row is not None:
                    if len(sr) != 2 or sr[1] != row:
                        out.append(w2 + ".astNodeIds=%r: outline step must name the pickle's example row %r" % (sr, row))
                elif len(sr) != 1:
                    out.append(w2 + ".astNodeIds=%r: plain step must be referenced alone" % (sr,))
            elif sr[0] in ctx["bg_steps"]:
                if len(sr) > 2 or (len(sr) == 2 and sr[1] != row):
                    out.append(w2 + ".astNodeIds=%r: background step with a foreign row" % (sr,))
            else:
                out.append(w2 + ".astNodeIds[0]=%r is not a step of this scenario or of a background in scope" % (sr[0],))
        got_steps = [s.get("astNodeIds", [None])[0] if isinstance(s.get("astNodeIds"), list) and s.get("astNodeIds") else None for s in p.get("steps", [])]
        if got_steps != ctx["step_order"] and all(g in ctx["own_steps"] or g in ctx["bg_steps"] for g in got_steps):
            out.append(where + ".steps reference %r, but the steps this pickle is made from are %r (background steps in scope, then the scenario's own, in order)" % (got_steps, ctx["step_order"]))
        tags = list(ctx["tags"]) + (list(ctx["rows"][row].get("tags", [])) if row is not None else [])
        got_tags = [t.get("astNodeId") for t in p.get("tags", [])]
        want_tags = [t["id"] for t in tags]
        if got_tags != want_tags and all(g in set(want_tags) for g in got_tags):
            out.append(where + ".tags reference %r, but the tags this pickle inherits are %r (feature, rule, scenario, examples, in order)" % (got_tags, want_tags))
        by_id = {t["id"]: t for t in tags}
        for ti, t in enumerate(p.get("tags", [])):
            src = by_id.get(t.get("astNodeId"))
            if src is None:
                out.append("%s.tags[%d].astNodeId=%r is not a tag in scope of that scenario" % (where, ti, t.get("astNodeId")))
            elif src.get("name") != t.get("name"):
                out.append("%s.tags[%d] name %r but AST tag %r is named %r" % (where, ti, t.get("name"), t.get("astNodeId"), src.get("name")))
    return out


def selfcheck(repo):
    """(files checked, problems): the model must reproduce the reference ids."""
    n, problems = 0, []
    for p in sorted(glob.glob(os.path.join(repo, "testdata", "good", "*.feature.ast.ndjson"))):
        pk = p.replace(".ast.ndjson", ".pickles.ndjson")
        with open(p, encoding="utf-8") as f:
            docs = [json.loads(x)["gherkinDocument"] for x in f if x.strip()]
        pickles = []
        if os.path.exists(pk):
            with open(pk, encoding="utf-8") as f:
                pickles = [json.loads(x)["pickle"] for x in f if x.strip()]
        if len(docs) != 1:
            continue
        n += 1
        pr = numbering_problem(docs[0], pickles)
        if pr:
            problems.append(os.path.basename(p) + ": " + pr)
        rp = resolution_problems(docs[0], pickles)
        if rp:
            problems.append(os.path.basename(p) + ": " + rp[0])
    return n, problems
