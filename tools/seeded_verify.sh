#!/usr/bin/env bash
# tools/seeded_verify.sh <src-dir with patch.diff demo.py meta.json> <seeded-id> <property> [tier]
# Confirms a sub-agent's change in a scratch worktree of /repo (tests pass, demo fails with it, passes without),
# stores it under /verif/seeded/<id>/ and runs the property's check against it.
set -u
SRC="$(realpath "$1")"; ID="$2"; PROP="$3"; TIER="${4:-quick}"
HERE="$(cd "$(dirname "${BASH_SOURCE[0]}")/.." && pwd)"
WT="$(mktemp -d /tmp/sv-XXXXXX)"; rmdir "$WT"
git -C /repo worktree add --detach "$WT" HEAD -q || exit 3
cleanup() { git -C /repo worktree remove --force "$WT" 2>/dev/null; rm -rf "$WT" "$WT.evidence"; }
trap cleanup EXIT
cd "$WT"
P0=$(PYTHONDONTWRITEBYTECODE=1 PYTHONPATH="$WT/python" timeout 120 /venv/bin/python "$SRC/demo.py" >/dev/null 2>&1; echo $?)
git apply "$SRC/patch.diff" || { echo "SEEDED $ID: patch does not apply"; exit 3; }
T=$(PYTHONDONTWRITEBYTECODE=1 timeout 600 /venv/bin/python -m pytest -q -p no:cacheprovider python 2>&1 | tail -1)
P1=$(PYTHONDONTWRITEBYTECODE=1 PYTHONPATH="$WT/python" timeout 120 /venv/bin/python "$SRC/demo.py" >/dev/null 2>&1; echo $?)
echo "SEEDED $ID: demo clean=$P0 mutant=$P1 tests: $T"
OUT=$(cd "$HERE" && VERIF_EVIDENCE_DIR="$WT.evidence" VERIF_REPO="$WT" ./check "$PROP" "$TIER" 2>&1); RC=$?
echo "$OUT" | grep -E "^VIOLATION|^  oracle=|^HARNESS|^NOTE|quick:|thorough:" | cut -c1-220 | head -8
echo "SEEDED $ID: check exit $RC"
mkdir -p "$HERE/seeded/$ID"
cp "$SRC/patch.diff" "$SRC/demo.py" "$HERE/seeded/$ID/"
python3 - "$SRC/meta.json" "$HERE/seeded/$ID/meta.json" "$PROP" "$TIER" "$P0" "$P1" "$T" "$RC" <<'PY'
import json,sys
src,dst,prop,tier,p0,p1,t,rc=sys.argv[1:]
try: m=json.load(open(src))
except Exception: m={}
m.update({"property":prop,"confirmed":{"demo_exit_clean_tree":int(p0),"demo_exit_with_change":int(p1),"baseline_tests_with_change":t,
  "ran":"git worktree of /repo HEAD under /tmp; git apply patch.diff; pytest python; demo.py; ./check %s %s with VERIF_REPO=<worktree>"%(prop,tier)},
  "check_exit_with_change":int(rc),"detected":int(rc)==1})
json.dump(m,open(dst,"w"),indent=1)
PY
