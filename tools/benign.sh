#!/usr/bin/env bash
# tools/benign.sh : every patch under /verif/benign is a behaviour-preserving refactoring; all three quick checks must stay green (exit 0).
HERE="$(cd "$(dirname "${BASH_SOURCE[0]}")/.." && pwd)"
for P in "$HERE"/benign/${BENIGN_GLOB:-*}.patch; do
  SCR="$(mktemp -d /tmp/ben-XXXXXX)"; mkdir -p "$SCR/repo"
  cp -a /repo/python /repo/testdata /repo/gherkin-languages.json "$SCR/repo/"
  (cd "$SCR/repo" && git init -q . && git apply "$P") || { echo "$(basename $P): patch does not apply"; rm -rf "$SCR"; continue; }
  for C in C11 C15 C17; do
    OUT=$(cd "$HERE" && VERIF_EVIDENCE_DIR="$SCR/evidence" VERIF_REPO="$SCR/repo" ./check $C quick 2>&1); RC=$?
    echo "$(basename $P .patch) $C exit=$RC $(echo "$OUT" | grep -E '^VIOLATION|^HARNESS|^  oracle' | head -3 | tr '\n' ' ' | cut -c1-300)"
  done
  rm -rf "$SCR"
done
