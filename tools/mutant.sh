#!/usr/bin/env bash
# tools/mutant.sh <patch-file> <property> [tier] : apply a patch to a scratch copy of the repo (outside /repo and /verif),
# run the 30 baseline tests there, then run ./check <property> with VERIF_REPO pointing at the copy. Removes the copy.
set -u
PATCH="$(realpath "$1")"; PROP="$2"; TIER="${3:-quick}"
HERE="$(cd "$(dirname "${BASH_SOURCE[0]}")/.." && pwd)"
SCR="$(mktemp -d /tmp/mut-XXXXXX)"
trap 'rm -rf "$SCR"' EXIT
mkdir -p "$SCR/repo"
cp -a /repo/python /repo/testdata /repo/gherkin-languages.json /repo/gherkin.berp "$SCR/repo/" 2>/dev/null
cd "$SCR/repo" && git init -q . && git add -A >/dev/null && git -c user.email=x@x -c user.name=x commit -qm base >/dev/null
if ! git apply "$PATCH"; then echo "MUTANT: patch does not apply"; exit 3; fi
T=$(cd "$SCR/repo" && PYTHONDONTWRITEBYTECODE=1 timeout 600 /venv/bin/python -m pytest -q -p no:cacheprovider python 2>&1 | tail -1)
echo "MUTANT tests: $T"
cd "$HERE" && VERIF_EVIDENCE_DIR="$SCR/evidence" VERIF_REPO="$SCR/repo" VERIF_WORKERS="${VERIF_WORKERS:-16}" ./check "$PROP" "$TIER" 2>&1 | grep -v "^    \|^  expected\|^  actual" | cut -c1-300 | tail -12
echo "MUTANT check exit: ${PIPESTATUS[0]}"
