#!/usr/bin/env python3
"""Writes the fixed perturbation pool /verif/pool/*.feature (run once; the files are committed).

Each document is chosen for the state it leaves behind in a Parser / TokenMatcher / AstBuilder /
look-ahead queue when it ends or aborts, or for being sensitive to such stale state.
"""
import os

P = {}

# --- plain accepted documents (sensitive to stale state) -------------------------------------
P["minimal"] = "Feature: Minimal\n\n  Scenario: minimalistic\n    Given the minimalism\n"
P["empty"] = ""
P["blank_only"] = "\n   \n\n"
P["comment_only"] = "# just a comment\n# another\n"
P["feature_only"] = "Feature: lonely"
P["indented_descr"] = (
    "Feature: Descriptions\n      deeply indented description line\n        even deeper\n    back\n\n"
    "  Scenario: s\n          ten blanks of description\n      six\n    Given x\n"
)
P["comment_heavy"] = (
    "# c1\nFeature: Comments\n  # c2\n  Background:\n    # c3\n    Given b\n  # c4\n  Scenario: s\n    # c5\n    Given x\n"
    "      # c6\n      | a |\n      # c7\n      | b |\n# c8\n"
)
P["background_rules"] = (
    "@f\nFeature: Rules\n  Background:\n    Given fb\n\n  Scenario: before rule\n    When x\n\n  @r1\n  Rule: first\n"
    "    Background:\n      Given rb1\n    @s1\n    Example: in rule\n      Then y\n\n  Rule: second\n    Example: other\n      And z\n"
)
P["outline_tagged"] = (
    "@f1 @f2\nFeature: Outline\n  @s1\n  Scenario Outline: eat <what>\n    Given <n> <what>\n      | k | <what> |\n"
    "    When eaten\n      \"\"\"<n>\n      body <what>\n      \"\"\"\n    But not <missing>\n\n    @e1\n    Examples: first\n"
    "      | n | what |\n      | 1 | apples |\n      | 2 | pears |\n\n    @e2 @e3\n    Examples: second\n      | n | what |\n      | 3 | plums |\n"
)
P["conjunction_first"] = "Feature: Conj\n  Scenario: s\n    And first\n    But second\n    * third\n    Given fourth\n    And fifth\n"
P["docstring_closed_indent6"] = (
    "Feature: Doc\n  Scenario: s\n    Given x\n      \"\"\"json\n      {\"a\": 1}\n        nested\n    dedented\n      \"\"\"\n    Then y\n"
)
P["docstring_backticks"] = "Feature: Doc\n  Scenario: s\n    Given x\n    ```\n    \"\"\"\n    not closed by quotes\n    \\`\\`\\`\n    ```\n"
P["tags_comments_before_scenario"] = (
    "Feature: LA\n  Scenario: one\n    Given x\n\n  @a\n  # comment in tags\n\n  @b @c\n  Scenario: two\n    Given y\n\n"
    "  @d\n\n  # c\n  Scenario Outline: three\n    Given <z>\n    @e\n    # c\n\n    @f\n    Examples:\n      | z |\n      | 1 |\n"
)
P["datatable_escapes"] = "Feature: T\n  Scenario: s\n    Given t\n      | a\\|b | c\\\\d | e\\nf |  |\n      | 1 | 2 | 3 | 4 |\n"
P["i18n_ja_default_en_header"] = "# language: ja\n機能: 日本語\n  シナリオ: s\n    前提x\n    もしy\n    ならばz\n"
P["i18n_fr_header"] = "# language: fr\nFonctionnalité: Français\n  Contexte:\n    Soit b\n  Scénario: s\n    Quand x\n    Alors y\n    Et z\n"
P["i18n_em_header"] = "# language: em\n📚: emoji\n  📕: s\n    😐x\n    🎬y\n    🙏z\n"
P["i18n_header_after_comment"] = "# first a comment\n#language:no\nEgenskap: norsk\n  Scenario: s\n    Gitt x\n"
P["english_keywords_plain"] = "Feature: en only\n  Scenario: s\n    Given Soit is not a keyword here\n    Soit this is an error in en but we are in a step arg? no\n"
P["french_words_in_description"] = "Feature: en\n  Soit x\n  Quand y\n  Scenario: s\n    Given z\n"
P["no_final_newline_table"] = "Feature: T\n  Scenario: s\n    Given t\n      | a | b |\n      | 1 | 2 |"
P["crlf"] = "Feature: CRLF\r\n  Scenario: s\r\n    Given x\r\n      \"\"\"\r\n      line\r\n      \"\"\"\r\n      \r\n"
P["many_scenarios"] = "Feature: Many\n" + "".join("  Scenario: s%d\n    Given g%d\n    When w%d\n    Then t%d\n\n" % (i, i, i, i) for i in range(8))
P["examples_empty_variants"] = (
    "Feature: E\n  Scenario Outline: o\n    Given <a>\n    Examples: none\n    Examples: header only\n      | a |\n    Examples: two\n      | a |\n      | 1 |\n      | 2 |\n"
)
P["rule_tags_lookahead"] = "Feature: R\n  Scenario: s\n    Given x\n  @r\n  # c\n\n  @r2\n  Rule: r\n    @x\n    Scenario: t\n      Given y\n"
P["markdown_flavoured"] = (
    "# Feature: Markdown\nSome prose.\n\n## Background:\n* Given b\n\n`@t1` `@t2`\n## Scenario: s\n* When x\n  | a | b |\n  |---|---|\n  | 1 | 2 |\n"
    "+ Then y\n```json\n{}\n```\n"
)
P["markdown_no_feature_header"] = "Just text\n\n## Scenario: s\n- Given x\n"

# --- documents that END in a dirty state (truncated / rejected) --------------------------------
P["eof_in_docstring_indent0"] = "Feature: D\n  Scenario: s\n    Given x\n\"\"\"\nopen at indent 0\n  Scenario: not a scenario\n"
P["eof_in_docstring_indent6"] = "Feature: D\n  Scenario: s\n    Given x\n      \"\"\"xml\n      open at indent 6\n"
P["eof_in_docstring_indent10_backticks"] = "Feature: D\n  Scenario: s\n    Given x\n          ```\n          open at indent 10\n  @tag\n"
P["eof_in_background_docstring_fr"] = "# language: fr\nFonctionnalité: D\n  Contexte:\n    Soit x\n        \"\"\"\n        ouvert\n"
P["eof_pending_tags"] = "Feature: Q\n  Scenario: s\n    Given x\n  @pending\n  # comment\n\n  @more\n"
P["eof_pending_tags_in_outline"] = "Feature: Q\n  Scenario Outline: s\n    Given <x>\n    @pending\n\n    # c\n"
P["eof_after_feature_tags"] = "@only @tags\n"
P["ragged_table_then_queue"] = (
    "Feature: Ragged\n  Scenario: s\n    Given t\n      | a | b |\n      | 1 |\n  @t\n  # c\n  Scenario: next\n    Given y\n"
)
P["ragged_examples"] = "Feature: Ragged\n  Scenario Outline: s\n    Given <a>\n    Examples:\n      | a | b |\n      | 1 |\n      | 2 | 3 | 4 |\n"
P["eleven_errors"] = "Feature: E\n  Scenario: s\n    Given x\n" + "".join("    junk %d\n" % i for i in range(12)) + "  Scenario: never reached\n"
P["exactly_ten_errors"] = "Feature: E\n  Scenario: s\n    Given x\n" + "".join("    junk %d\n" % i for i in range(10)) + "    Then reached\n"
P["duplicate_errors"] = "Feature: E\n  Scenario: s\n    Given x\n" + "    same junk\n" * 5
P["tag_with_whitespace"] = "Feature: W\n  @a b\n  Scenario: s\n    Given x\n  @ok\n  Scenario: t\n    Given y\n"
P["unknown_language"] = "# language: zz-unknown\nFeature: X\n  Scenario: s\n    Given x\n"
P["language_comment_after_tag"] = "#language:fr\n\n@t\n# language: en\nFonctionnalité: X\n  Scénario: s\n    Soit x\n"
P["two_features"] = "Feature: one\n  Scenario: s\n    Given x\nFeature: two\n"
P["unexpected_eof_after_tag"] = "Feature: U\n  @t\n"
P["error_then_docstring_open"] = "Feature: X\n  junk before\n  Scenario: s\n  Scenario: t\n    Given x\n    nonsense\n      \"\"\"\n      still open\n"
P["fr_error_in_middle"] = "# language: fr\nFonctionnalité: X\n  Scénario: s\n    Soit x\n    Given not french\n    Alors y\n"
P["ja_no_space_keywords_rejected"] = "# language: ja\n機能: x\n  シナリオ: s\n    前提a\n    Given b\n"
P["background_after_scenario"] = "Feature: X\n  Scenario: s\n    Given x\n  Background:\n    Given late\n"
P["comments_then_error"] = "# c1\n# c2\nFeature: X\n  # c3\n  Scenario: s\n    Given x\n    # c4\n    oops\n    # c5\n"
P["bad_tag_inside_lookahead"] = "Feature: L\n  Scenario: s\n    Given x\n  @good\n  # c\n  @not ok\n  Scenario: t\n    Given y\n"
P["many_errors_inside_lookahead"] = "Feature: L\n  Scenario: s\n    Given x\n" + "".join("    junk %d\n" % i for i in range(10)) + "  @good\n  @bad tag\n  Scenario: t\n"
P["only_language_header"] = "# language: fr\n"
P["md_eof_in_fence"] = "# Feature: M\n## Scenario: s\n* Given x\n````\nfour ticks open\n"
P["cellless_tables"] = (
    "@f\nFeature: C\n  Background:\n    Given b\n      |\n  @o\n  Scenario Outline: o\n    Given <a> step\n      |\n      |\n    When w\n"
    "    @e\n    Examples:\n      |\n      |\n      |\n    Examples: second\n      | a |\n      | 1 |\n"
)

if __name__ == "__main__":
    d = os.path.join(os.path.dirname(os.path.abspath(__file__)), "..", "pool")
    os.makedirs(d, exist_ok=True)
    for old in os.listdir(d):
        os.remove(os.path.join(d, old))
    for i, (name, text) in enumerate(P.items()):
        with open(os.path.join(d, "%02d-%s.feature" % (i, name)), "w", encoding="utf-8", newline="") as f:
            f.write(text)
    print(len(P), "pool documents written")
