#!/usr/bin/env python3
"""tools/sensitivity.py [tier] : run every planted change (mutants/*.patch) and every sub-agent-seeded change
(seeded/*/patch.diff) against the quick (or given) tier of the check that owns its property.
Each change is applied to a scratch copy of /repo/python under /tmp (removed afterwards); the 30 baseline tests
are run there first. Writes sensitivity/RESULTS.json and sensitivity/RESULTS.md."""
import glob
import json
import os
import re
import shutil
import subprocess
import sys
import tempfile
import time

HERE = os.path.dirname(os.path.dirname(os.path.abspath(__file__)))
tier = sys.argv[1] if len(sys.argv) > 1 else "quick"
only = sys.argv[2:] if len(sys.argv) > 2 else None


def run_one(name, patch, prop):
    scr = tempfile.mkdtemp(prefix="sens-", dir="/tmp")
    try:
        repo = os.path.join(scr, "repo")
        os.makedirs(repo)
        for item in ("python", "testdata", "gherkin-languages.json", "gherkin.berp"):
            src = os.path.join("/repo", item)
            (shutil.copytree if os.path.isdir(src) else shutil.copy)(src, os.path.join(repo, item))
        subprocess.run(["git", "init", "-q", "."], cwd=repo, check=True)
        r = subprocess.run(["git", "apply", patch], cwd=repo, capture_output=True, text=True)
        if r.returncode:
            return {"name": name, "property": prop, "status": "patch does not apply", "detail": r.stderr[-300:]}
        env = dict(os.environ, PYTHONDONTWRITEBYTECODE="1")
        t = subprocess.run(["/venv/bin/python", "-m", "pytest", "-q", "-p", "no:cacheprovider", "python"], cwd=repo, capture_output=True, text=True, env=env, timeout=900)
        tests = (t.stdout.strip().splitlines() or ["?"])[-1]
        t0 = time.time()
        c = subprocess.run([os.path.join(HERE, "check"), prop, tier], cwd=HERE, capture_output=True, text=True, env=dict(env, VERIF_REPO=repo, VERIF_EVIDENCE_DIR=os.path.join(os.path.dirname(repo), "evidence")), timeout=7200)
        oracles = sorted(set(re.findall(r"oracle=(\S+)", c.stdout)))
        whole = sorted(set(re.findall(r"replays/%s-(det|poison)\.json" % prop, c.stdout)))
        return {"name": name, "property": prop, "tests": tests, "tests_pass": " failed" not in tests and "error" not in tests, "check_exit": c.returncode, "detected": c.returncode == 1,
                "oracles": oracles + ["%s-%s" % (prop, w) for w in whole], "wall_s": round(time.time() - t0, 1),
                "summary": [ln for ln in c.stdout.splitlines() if ln.startswith(prop + " " + tier)][-1:]}
    finally:
        shutil.rmtree(scr, ignore_errors=True)


items = []
for p in sorted(glob.glob(os.path.join(HERE, "mutants", "*.patch"))):
    n = os.path.basename(p)[:-6]
    items.append(("planted/" + n, p, n.split("-")[0].upper()))
for d in sorted(glob.glob(os.path.join(HERE, "seeded", "*"))):
    if os.path.exists(os.path.join(d, "patch.diff")):
        meta = json.load(open(os.path.join(d, "meta.json")))
        items.append(("seeded/" + os.path.basename(d), os.path.join(d, "patch.diff"), meta["property"]))
if only:
    items = [i for i in items if any(o in i[0] for o in only)]
results = []
for name, patch, prop in items:
    r = run_one(name, patch, prop)
    results.append(r)
    print("%-55s %s tests=%s exit=%s %s" % (name, prop, r.get("tests_pass"), r.get("check_exit"), ",".join(r.get("oracles", []))), flush=True)
os.makedirs(os.path.join(HERE, "sensitivity"), exist_ok=True)
rj = os.path.join(HERE, "sensitivity", "RESULTS.json")
if only and os.path.exists(rj):
    # partial run: merge into the existing table
    old = json.load(open(rj))["results"]
    by = {r["name"]: r for r in old}
    for r in results:
        by[r["name"]] = r
    results = [by[k] for k in sorted(by)]
json.dump({"tier": tier, "results": results}, open(rj, "w"), indent=1)
with open(os.path.join(HERE, "sensitivity", "RESULTS.md"), "w") as f:
    f.write("# Sensitivity run (%s tier)\n\nEvery planted change (`mutants/`) and every sub-agent-seeded change (`seeded/`), applied to a scratch copy of the repository, "
            "30 baseline tests first, then the quick tier of the check that owns its property. Changes assessed as outside the property carry an `assessment` in `seeded/<id>/meta.json`.\n\n"
            "| change | property | 30 tests pass | check exit | detected by |\n|---|---|---|---|---|\n" % tier)
    for r in results:
        note = ""
        if r["name"].startswith("seeded/") and not r.get("detected"):
            try:
                m = json.load(open(os.path.join(HERE, r["name"], "meta.json")))
                note = "not detected: " + (m.get("assessment", "")[:110] + "...") if m.get("assessment") else "not detected"
                if m.get("detected_by"):
                    note = "detected by the %s check (see meta.json)" % m["detected_by"]
            except Exception:
                note = "not detected"
        f.write("| %s | %s | %s | %s | %s |\n" % (r["name"], r["property"], r.get("tests_pass"), r.get("check_exit"), ", ".join(r.get("oracles", [])) or note or r.get("status", "-")))
    det = sum(1 for r in results if r.get("detected"))
    f.write("\n%d of %d changes detected (exit 1 with a replay file).\n" % (det, len(results)))
